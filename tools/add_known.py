#!/usr/bin/env python3
"""Developer-time triage helper (never run by a check): run a check, and list every *new*
violation key matching a regex as a known finding with the given root-cause text.
usage: add_known.py <ID> <regex> <what> [--tier quick]"""
import json, os, re, subprocess, sys, shutil
ROOT = os.path.dirname(os.path.dirname(os.path.abspath(__file__)))
pid, rx, what = sys.argv[1], re.compile(sys.argv[2]), sys.argv[3]
out = subprocess.run([os.path.join(ROOT, "check"), pid, "--tier", "quick"], capture_output=True, text=True).stdout
kf_path = os.path.join(ROOT, "known_findings.json")
kf = json.load(open(kf_path))
have = {(f["property"], f["key"]) for f in kf["findings"]}
lines = out.splitlines()
n = 0
for i, l in enumerate(lines):
    m = re.match(r"VIOLATION property=(\S+) replay=(\S+)", l)
    if not m: continue
    key = lines[i + 1].split("key: ", 1)[1]
    if not rx.search(key) or (pid, key) in have: continue
    src = m.group(2)
    d = os.path.join(ROOT, "findings", pid)
    os.makedirs(d, exist_ok=True)
    dst = os.path.join(d, os.path.basename(src))
    shutil.copy(src, dst)
    kf["findings"].append({"property": pid, "key": key, "status": "known", "what": what,
                           "replay": os.path.relpath(dst, ROOT)})
    n += 1
json.dump(kf, open(kf_path, "w"), indent=1, ensure_ascii=False)
print("added", n)
