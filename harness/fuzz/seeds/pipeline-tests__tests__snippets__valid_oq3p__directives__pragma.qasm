// lex: ok
// parse: ok
// sema: ok

pragma (((9217#@%^^^*!@#$%^
#pragma ))!~==}{
