// lex: ok
// parse: todo
// sema: skip

bit[2] a;
bit[2] b;
creg b[2];
qubit[3] q;
int[10] x = 12;
a[0] = b[1];
x += int[10](a[1]);
measure q[1] -> a[0];
a = measure q[1:2];
measure q[0];
b = a == 0;
