// lex: ok
// parse: ok
// sema: panic

// beware the tab character in dur4 = 8 ns below
  int[10] x;
  int[10] y;
  uint[32] z = 0xFa_1F;
  uint[32] z = 0XFa_1F;
  uint[16] z = 0o12_34;
  uint[16] z = 0b1001_1001;
  uint[16] z = 0B1001_1001;
  uint x;
  qubit[6] q1;
  qubit q2;
  bit[4] b1="0100";
  bit[8] b2="1001_0100";
  bit b2 = "1";
  bool m=true;
  bool n=bool(b2);
  bool o=false;
  const float[64] c = 5.5e3;
  const float[64] d=5;
  float[32] f = .1e+3;
  duration dur = 1000dt;
  duration dur2 = dur + 200ns;
  duration dur3 = 10 ms;
  duration dur4 = 8	us;
  duration dur5 = 1s;
  stretch s;
