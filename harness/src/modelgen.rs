//! G-model, syntactic profile: model programs over the reference syntax (DESIGN.md §4.4, §5.1).
//! The semantic (environment-threaded) profile lives in semgen.rs.

use crate::engine::Src;
use crate::model::*;

#[derive(Clone, Debug)]
pub struct Switches {
    /// known finding: `x = a + b;` is rejected (binding power of `=`): parenthesise
    pub paren_binop_rhs_of_assignment: bool,
    /// known finding: if/else with single-statement branches confuses the accessors
    pub blocks_only_for_if_else: bool,
    /// known finding: `ctrl @ gphase(a) q;` is rejected
    pub no_operands_after_gphase: bool,
    /// known finding: `;` directly after an item at file level is rejected in item mode
    pub no_empty_stmt_at_file_level: bool,
    /// known finding: the top level switches to the statement loop after the first
    /// expression-like statement, where `let` is a LET_STMT: keep aliases before that point
    pub alias_only_in_item_mode: bool,
    /// operators whose relative precedence is known to be wrong are not mixed without parentheses
    pub paren_mixed_precedence: bool,
    pub avoided: u64,
}

impl Switches {
    /// The switches of the findings that are still listed as known. (Single-statement if/else
    /// branches and mixed operator precedence were repaired by fix: commits, so their switches
    /// are off and the random generators produce those constructs freely again.)
    pub fn all_on() -> Switches {
        Switches {
            paren_binop_rhs_of_assignment: true,
            blocks_only_for_if_else: false,
            no_operands_after_gphase: true,
            no_empty_stmt_at_file_level: true,
            alias_only_in_item_mode: true,
            paren_mixed_precedence: false,
            avoided: 0,
        }
    }
    pub fn all_off() -> Switches {
        Switches {
            paren_binop_rhs_of_assignment: false,
            blocks_only_for_if_else: false,
            no_operands_after_gphase: false,
            no_empty_stmt_at_file_level: false,
            alias_only_in_item_mode: false,
            paren_mixed_precedence: false,
            avoided: 0,
        }
    }
}

pub const VARS: &[&str] = &["a", "b", "c", "x", "y", "z", "n", "θ", "v_1"];
pub const QUBITS: &[&str] = &["q", "r", "qq", "anc"];
pub const GATES: &[&str] = &["g", "h", "cx", "rz", "U", "x", "mygate", "ccx"];
pub const DEFS: &[&str] = &["f", "sub", "fn2"];
pub const UNITS: &[&str] = &["ns", "us", "µs", "ms", "s", "dt"];

pub struct Gen<'a, 'b> {
    pub src: &'a mut Src<'b>,
    pub sw: Switches,
    pub max_expr_depth: usize,
    pub max_stmt_depth: usize,
}

#[derive(Clone, Copy, PartialEq, Eq)]
pub enum ECtx {
    Any,
    /// designator / dimension: integer-looking expressions only
    Designator,
}

impl<'a, 'b> Gen<'a, 'b> {
    pub fn new(src: &'a mut Src<'b>, sw: Switches) -> Self {
        Gen { src, sw, max_expr_depth: 5, max_stmt_depth: 4 }
    }

    fn pick<'c>(&mut self, xs: &'c [&'c str]) -> &'c str {
        xs[self.src.below(xs.len())]
    }

    pub fn int_lit(&mut self) -> Expr {
        let s = match self.src.below(8) {
            0 => "0".to_string(),
            1 => "1".to_string(),
            2 => format!("{}", self.src.below(1000)),
            3 => format!("{}_{:03}", 1 + self.src.below(99), self.src.below(1000)),
            4 => format!("0b{:b}", self.src.below(64)),
            5 => format!("0o{:o}", self.src.below(512)),
            6 => format!("0x{:X}", self.src.below(65536)),
            _ => format!("0x{:x}", self.src.below(4096)),
        };
        Expr::Int(s)
    }

    pub fn float_lit(&mut self) -> Expr {
        let a = self.src.below(100);
        let b = self.src.below(1000);
        let s = match self.src.below(6) {
            0 => format!("{a}.{b}"),
            1 => format!("{a}."),
            2 => format!(".{b}"),
            3 => format!("{a}e{}", self.src.below(20)),
            4 => format!("{a}.{b}E-{}", self.src.below(20)),
            _ => format!("{a}.{b}e+{}", self.src.below(9)),
        };
        Expr::Float(s)
    }

    pub fn literal(&mut self) -> Expr {
        match self.src.weighted(&[10, 5, 3, 2, 2, 2]) {
            0 => self.int_lit(),
            1 => self.float_lit(),
            2 => Expr::Bool(self.src.bool()),
            3 => {
                let n = 1 + self.src.below(8);
                let q = if self.src.bool() { '"' } else { '\'' };
                let mut s = String::new();
                s.push(q);
                for i in 0..n {
                    s.push(if self.src.bool() { '1' } else { '0' });
                    if i + 1 < n && self.src.chance(1, 5) {
                        s.push('_');
                    }
                }
                s.push(q);
                Expr::BitStr(s)
            }
            4 => {
                let float = self.src.bool();
                let n = if float { format!("{}.{}", self.src.below(100), self.src.below(10)) } else { format!("{}", self.src.below(1000)) };
                let u = self.pick(UNITS).to_string();
                Expr::Timing(n, float, u, self.src.bool())
            }
            _ => {
                let float = self.src.bool();
                let n = if float { format!("{}.{}", self.src.below(100), self.src.below(10)) } else { format!("{}", self.src.below(1000)) };
                Expr::Imag(n, float, self.src.bool())
            }
        }
    }

    pub fn scalar_ty(&mut self) -> Ty {
        let d = |g: &mut Self| -> Option<Box<Expr>> {
            if g.src.bool() {
                Some(Box::new(g.expr_in(1, ECtx::Designator)))
            } else {
                None
            }
        };
        match self.src.below(10) {
            0 => Ty::Bit(d(self)),
            1 | 2 => Ty::Int(d(self)),
            3 => Ty::UInt(d(self)),
            4 => Ty::Float(d(self)),
            5 => Ty::Angle(d(self)),
            6 => Ty::Bool,
            7 => Ty::Duration,
            8 => Ty::Stretch,
            _ => match self.src.below(3) {
                0 => Ty::Complex(None),
                1 => Ty::Complex(Some(None)),
                _ => Ty::Complex(Some(Some(Box::new(self.expr_in(1, ECtx::Designator))))),
            },
        }
    }

    fn index(&mut self, depth: usize) -> Index {
        if self.src.chance(1, 8) {
            let n = 1 + self.src.below(3);
            return Index::Set((0..n).map(|_| self.expr_d(depth + 1)).collect());
        }
        let hi = if self.src.chance(1, 4) { 3 } else { 1 };
        let n = 1 + self.src.below(hi);
        Index::List(
            (0..n)
                .map(|_| {
                    if self.src.chance(1, 4) {
                        let a = self.expr_d(depth + 1);
                        let s = if self.src.chance(1, 3) { Some(self.expr_d(depth + 1)) } else { None };
                        let b = self.expr_d(depth + 1);
                        IndexItem::Range(a, s, b)
                    } else {
                        IndexItem::Expr(self.expr_d(depth + 1))
                    }
                })
                .collect(),
        )
    }

    pub fn operand(&mut self) -> Operand {
        match self.src.weighted(&[6, 3, 1]) {
            0 => Operand::Id(self.pick(QUBITS).to_string()),
            1 => {
                let hi = if self.src.chance(1, 6) { 2 } else { 1 };
        let n = 1 + self.src.below(hi);
                Operand::Indexed(self.pick(QUBITS).to_string(), (0..n).map(|_| self.index(3)).collect())
            }
            _ => Operand::Hw(format!("${}", self.src.below(20))),
        }
    }

    pub fn expr(&mut self) -> Expr {
        self.expr_d(0)
    }

    pub fn expr_d(&mut self, depth: usize) -> Expr {
        self.expr_in(depth, ECtx::Any)
    }

    pub fn expr_in(&mut self, depth: usize, ctx: ECtx) -> Expr {
        if ctx == ECtx::Designator {
            return match self.src.weighted(&[8, 3, 2, 1]) {
                0 => self.int_lit(),
                1 => Expr::Ident(self.pick(VARS).to_string()),
                2 if depth < 3 => {
                    let op = [BinOp::Add, BinOp::Mul, BinOp::Sub, BinOp::Shl][self.src.below(4)];
                    Expr::Bin(op, Box::new(self.expr_in(depth + 1, ctx)), Box::new(self.expr_in(depth + 1, ctx)))
                }
                _ => self.int_lit(),
            };
        }
        let leaf = depth >= self.max_expr_depth;
        let k = if leaf { self.src.weighted(&[6, 6]) } else { self.src.weighted(&[6, 6, 2, 10, 3, 2, 2, 3, 1]) };
        match k {
            0 => self.literal(),
            1 => Expr::Ident(self.pick(VARS).to_string()),
            2 => Expr::Paren(Box::new(self.expr_d(depth + 1))),
            3 => {
                let op = BINOPS[self.src.below(BINOPS.len())];
                let l = self.expr_d(depth + 1);
                let r = self.expr_d(depth + 1);
                self.bin(op, l, r)
            }
            4 => {
                let op = [UnOp::Neg, UnOp::Not, UnOp::BitNot][self.src.below(3)];
                let x = self.expr_d(depth + 1);
                Expr::Un(op, Box::new(x))
            }
            5 => {
                let t = self.scalar_ty();
                Expr::Cast(t, Box::new(self.expr_d(depth + 1)))
            }
            6 => {
                let n = self.src.below(4);
                Expr::Call(self.pick(DEFS).to_string(), (0..n).map(|_| self.expr_d(depth + 1)).collect())
            }
            7 => {
                let hi = if self.src.chance(1, 5) { 2 } else { 1 };
        let n = 1 + self.src.below(hi);
                Expr::IndexedId(self.pick(VARS).to_string(), (0..n).map(|_| self.index(depth)).collect())
            }
            _ => {
                // index applied to a parenthesised expression or a call
                let base = if self.src.bool() {
                    Expr::Paren(Box::new(self.expr_d(depth + 1)))
                } else {
                    Expr::Call(self.pick(DEFS).to_string(), vec![self.expr_d(depth + 1)])
                };
                Expr::IndexExpr(Box::new(base), self.index(depth))
            }
        }
    }

    /// Build a binary expression, applying the mixed-precedence avoidance switch.
    pub fn bin(&mut self, op: BinOp, l: Expr, r: Expr) -> Expr {
        let mut l = l;
        let mut r = r;
        if self.sw.paren_mixed_precedence {
            // operands that are themselves unparenthesised binary/unary expressions are wrapped
            if matches!(l, Expr::Bin(..) | Expr::Un(..)) {
                l = Expr::Paren(Box::new(l));
                self.sw.avoided += 1;
            }
            if matches!(r, Expr::Bin(..) | Expr::Un(..)) {
                r = Expr::Paren(Box::new(r));
                self.sw.avoided += 1;
            }
        }
        Expr::Bin(op, Box::new(l), Box::new(r))
    }

    fn modifiers(&mut self) -> Vec<Modifier> {
        let n = self.src.below(4);
        (0..n)
            .map(|_| match self.src.below(4) {
                0 => Modifier::Inv,
                1 => Modifier::Pow(self.expr_d(2)),
                2 => Modifier::Ctrl(if self.src.bool() { Some(self.expr_in(2, ECtx::Designator)) } else { None }),
                _ => Modifier::NegCtrl(if self.src.bool() { Some(self.expr_in(2, ECtx::Designator)) } else { None }),
            })
            .collect()
    }

    pub fn gate_call(&mut self) -> Stmt {
        let mods = if self.src.chance(1, 3) { self.modifiers() } else { vec![] };
        let args = if self.src.chance(2, 5) {
            let n = 1 + self.src.below(3);
            Some((0..n).map(|_| self.expr_d(2)).collect())
        } else {
            None
        };
        let n = 1 + self.src.below(3);
        Stmt::GateCall { mods, name: self.pick(GATES).to_string(), args, operands: (0..n).map(|_| self.operand()).collect() }
    }

    fn lvalue(&mut self) -> LValue {
        if self.src.chance(1, 4) {
            let hi = if self.src.chance(1, 6) { 2 } else { 1 };
        let n = 1 + self.src.below(hi);
            LValue::Indexed(self.pick(VARS).to_string(), (0..n).map(|_| self.index(3)).collect())
        } else {
            LValue::Id(self.pick(VARS).to_string())
        }
    }

    fn assign(&mut self) -> Stmt {
        let target = self.lvalue();
        if self.src.chance(1, 4) {
            let ops = [BinOp::Add, BinOp::Sub, BinOp::Mul, BinOp::Div, BinOp::Rem, BinOp::BitAnd, BinOp::BitOr, BinOp::BitXor, BinOp::Shl, BinOp::Shr];
            let op = ops[self.src.below(ops.len())];
            return Stmt::Assign { target, op: AssignOp::Compound(op), value: self.expr_d(1) };
        }
        let mut value = if self.src.chance(1, 6) { Expr::Measure(self.operand()) } else { self.expr_d(1) };
        if self.sw.paren_binop_rhs_of_assignment && matches!(value, Expr::Bin(..)) {
            value = Expr::Paren(Box::new(value));
            self.sw.avoided += 1;
        }
        Stmt::Assign { target, op: AssignOp::Assign, value }
    }

    /// A statement that may stand alone as a single-statement body.
    fn simple_stmt(&mut self, in_loop: bool, in_def: bool) -> Stmt {
        match self.src.weighted(&[6, 6, 2, 1, 1, 1, if in_loop { 2 } else { 0 }, if in_def { 2 } else { 0 }, 1, 1]) {
            0 => self.gate_call(),
            1 => self.assign(),
            2 => Stmt::ExprStmt(Expr::Call(self.pick(DEFS).to_string(), vec![self.expr_d(2)])),
            3 => Stmt::Reset(self.operand()),
            4 => Stmt::Barrier((0..self.src.below(3)).map(|_| self.operand()).collect()),
            5 => Stmt::MeasureStmt(self.operand()),
            6 => {
                if self.src.bool() {
                    Stmt::Break
                } else {
                    Stmt::Continue
                }
            }
            7 => Stmt::Return(if self.src.bool() { Some(self.expr_d(2)) } else { None }),
            8 => Stmt::End,
            _ => {
                let d = self.literal_timing();
                Stmt::Delay(d, (0..self.src.below(3)).map(|_| self.operand()).collect())
            }
        }
    }

    fn literal_timing(&mut self) -> Expr {
        if self.src.chance(1, 4) {
            Expr::Ident(self.pick(VARS).to_string())
        } else {
            let float = self.src.bool();
            let n = if float { format!("{}.{}", self.src.below(100), self.src.below(10)) } else { format!("{}", self.src.below(1000)) };
            Expr::Timing(n, float, self.pick(UNITS).to_string(), false)
        }
    }

    fn body(&mut self, depth: usize, in_loop: bool, in_def: bool, force_block: bool, allow_open_if: bool) -> Body {
        if force_block || self.src.chance(3, 5) {
            let n = self.src.below(4);
            Body::Block((0..n).map(|_| self.stmt(depth + 1, in_loop, in_def, false)).collect())
        } else if depth < self.max_stmt_depth && self.src.chance(1, 4) && allow_open_if {
            // nested control flow as a single statement
            Body::Single(Box::new(self.control(depth + 1, in_loop, in_def)))
        } else {
            Body::Single(Box::new(self.simple_stmt(in_loop, in_def)))
        }
    }

    fn control(&mut self, depth: usize, in_loop: bool, in_def: bool) -> Stmt {
        match self.src.below(4) {
            0 => {
                let cond = self.expr_d(2);
                let has_else = self.src.bool();
                let force = self.sw.blocks_only_for_if_else;
                // with an else branch, a single-statement then-branch must not end in an open `if`
                let then = self.body(depth, in_loop, in_def, force, !has_else);
                let els = if has_else {
                    Some(if self.src.chance(1, 4) && depth < self.max_stmt_depth && !force {
                        // else if
                        Body::Single(Box::new(self.control_if(depth + 1, in_loop, in_def)))
                    } else {
                        self.body(depth, in_loop, in_def, force, true)
                    })
                } else {
                    None
                };
                if force {
                    self.sw.avoided += 1;
                }
                Stmt::If { cond, then, els }
            }
            1 => Stmt::While { cond: self.expr_d(2), body: self.body(depth, true, in_def, false, true) },
            2 => {
                let ty = match self.src.below(4) {
                    0 => Ty::Int(None),
                    1 => Ty::UInt(Some(Box::new(self.int_lit()))),
                    2 => Ty::Float(None),
                    _ => Ty::Int(Some(Box::new(self.int_lit()))),
                };
                let iter = match self.src.below(3) {
                    0 => ForIter::Range(self.expr_d(3), if self.src.chance(1, 3) { Some(self.expr_d(3)) } else { None }, self.expr_d(3)),
                    1 => ForIter::Set((0..1 + self.src.below(3)).map(|_| self.expr_d(3)).collect()),
                    _ => ForIter::Expr(if self.src.bool() {
                        Expr::Ident(self.pick(VARS).to_string())
                    } else {
                        Expr::IndexedId(self.pick(VARS).to_string(), vec![self.index(3)])
                    }),
                };
                let mut body = self.body(depth, true, in_def, false, true);
                if matches!(iter, ForIter::Expr(Expr::Ident(_))) && self.sw.no_operands_after_gphase {
                    // known finding: `for int i in arr h q;` — identifier iterable followed by a
                    // single-statement body that starts with an identifier is read as a gate call
                    if let Body::Single(s) = &body {
                        body = Body::Block(vec![(**s).clone()]);
                        self.sw.avoided += 1;
                    }
                }
                Stmt::For { ty, var: ["i", "j", "k"][self.src.below(3)].to_string(), iter, body }
            }
            _ => {
                let control = self.expr_d(2);
                let n = self.src.below(3);
                let cases = (0..n)
                    .map(|_| {
                        let nv = 1 + self.src.below(3);
                        let vals = (0..nv).map(|_| self.expr_in(2, ECtx::Designator)).collect();
                        let nb = self.src.below(3);
                        (vals, (0..nb).map(|_| self.stmt(depth + 1, in_loop, in_def, false)).collect())
                    })
                    .collect::<Vec<_>>();
                let default = if self.src.bool() || cases.is_empty() {
                    Some((0..self.src.below(3)).map(|_| self.stmt(depth + 1, in_loop, in_def, false)).collect())
                } else {
                    None
                };
                Stmt::Switch { control, cases, default }
            }
        }
    }

    fn control_if(&mut self, depth: usize, in_loop: bool, in_def: bool) -> Stmt {
        let cond = self.expr_d(2);
        let has_else = self.src.bool();
        let then = self.body(depth, in_loop, in_def, false, !has_else);
        let els = if has_else { Some(self.body(depth, in_loop, in_def, false, true)) } else { None };
        Stmt::If { cond, then, els }
    }

    fn decl(&mut self) -> Stmt {
        match self.src.below(10) {
            0..=4 => {
                let konst = self.src.chance(1, 4);
                let ty = self.scalar_ty();
                let init = if konst || self.src.bool() {
                    Some(if self.src.chance(1, 8) { Expr::Measure(self.operand()) } else { self.expr_d(1) })
                } else {
                    None
                };
                Stmt::ClassicalDecl { konst, ty, name: self.pick(VARS).to_string(), init }
            }
            5 => Stmt::QubitDecl { size: if self.src.bool() { Some(self.expr_in(2, ECtx::Designator)) } else { None }, name: self.pick(QUBITS).to_string() },
            6 => Stmt::OldDecl { qreg: self.src.bool(), name: self.pick(QUBITS).to_string(), size: self.int_lit() },
            7 if self.src.chance(1, 4) => {
                let base = match self.src.below(4) {
                    0 => Ty::Int(Some(Box::new(self.int_lit()))),
                    1 => Ty::Float(None),
                    2 => Ty::Complex(Some(Some(Box::new(self.int_lit())))),
                    _ => Ty::UInt(None),
                };
                let nd = 1 + self.src.below(3);
                let dims = (0..nd).map(|_| self.int_lit()).collect();
                Stmt::IoArrayDecl { input: self.src.bool(), base, dims, name: self.pick(VARS).to_string() }
            }
            7 => Stmt::IoDecl { input: self.src.bool(), ty: self.scalar_ty(), name: self.pick(VARS).to_string() },
            8 => {
                let base = match self.src.below(4) {
                    0 => Ty::Int(Some(Box::new(self.int_lit()))),
                    1 => Ty::Float(None),
                    2 => Ty::Bool,
                    _ => Ty::UInt(None),
                };
                let nd = 1 + self.src.below(3);
                let dims = (0..nd).map(|_| self.expr_in(2, ECtx::Designator)).collect();
                Stmt::ArrayDecl { base, dims, name: self.pick(VARS).to_string(), init: None }
            }
            _ => Stmt::HwQubitDecl(format!("${}", self.src.below(8))),
        }
    }

    /// Any statement allowed inside a block at nesting `depth`.
    pub fn stmt(&mut self, depth: usize, in_loop: bool, in_def: bool, top: bool) -> Stmt {
        let can_nest = depth < self.max_stmt_depth;
        let w_control = if can_nest { 6 } else { 0 };
        let w_defs = if top { 4 } else { 0 };
        // known finding: inside blocks `let` is parsed as LET_STMT, not as an alias declaration
        let w_alias = if top || !self.sw.alias_only_in_item_mode { 1 } else { 0 };
        match self.src.weighted(&[10, 8, w_control, w_defs, 2, 2, w_alias, 0]) {
            0 => self.simple_stmt(in_loop, in_def),
            1 => self.decl(),
            2 => self.control(depth, in_loop, in_def),
            3 => {
                if self.src.bool() {
                    self.gate_def()
                } else {
                    self.def_def(depth)
                }
            }
            4 => {
                let head = if self.src.bool() { "pragma" } else { "#pragma" };
                Stmt::Pragma(format!("{head} {}", ["", "x", "user foo bar", "a.b c(d)", "\"quoted\" 'x'"][self.src.below(5)]))
            }
            5 => {
                let n = 1 + self.src.below(2);
                let anns = (0..n).map(|_| format!("@{}{}", ["bind", "rename", "opt", "a"][self.src.below(4)], ["", " x", " a b c", " (1,2)"][self.src.below(4)])).collect();
                let inner = if self.src.bool() { self.decl() } else { self.simple_stmt(in_loop, in_def) };
                Stmt::Annotated(anns, Box::new(inner))
            }
            6 => Stmt::Alias { name: self.pick(VARS).to_string(), value: self.alias_value() },
            _ => Stmt::Empty,
        }
    }

    fn alias_value(&mut self) -> Expr {
        let part = |g: &mut Self| -> Expr {
            if g.src.bool() {
                Expr::Ident(g.pick(QUBITS).to_string())
            } else {
                Expr::IndexedId(g.pick(QUBITS).to_string(), vec![g.index(3)])
            }
        };
        let a = part(self);
        if self.src.chance(1, 3) {
            let b = part(self);
            Expr::Bin(BinOp::Concat, Box::new(a), Box::new(b))
        } else {
            a
        }
    }

    pub fn gate_def(&mut self) -> Stmt {
        let params = if self.src.bool() { Some((0..1 + self.src.below(3)).map(|i| ["t", "u", "w"][i].to_string()).collect()) } else { None };
        let nq = 1 + self.src.below(3);
        let qubits: Vec<String> = (0..nq).map(|i| ["q0", "q1", "q2"][i].to_string()).collect();
        let nb = self.src.below(4);
        let body = (0..nb)
            .map(|_| match self.src.below(5) {
                0 => Stmt::GPhase { mods: vec![], arg: self.expr_d(3), operands: vec![] },
                1 => Stmt::Barrier(qubits.iter().take(1 + self.src.below(nq)).map(|q| Operand::Id(q.clone())).collect()),
                _ => {
                    let mods = if self.src.chance(1, 3) { self.modifiers() } else { vec![] };
                    let args = if self.src.bool() { Some(vec![self.expr_d(3)]) } else { None };
                    Stmt::GateCall { mods, name: self.pick(GATES).to_string(), args, operands: qubits.iter().take(1 + self.src.below(nq)).map(|q| Operand::Id(q.clone())).collect() }
                }
            })
            .collect();
        Stmt::Gate { name: self.pick(GATES).to_string(), params, qubits, body }
    }

    pub fn def_def(&mut self, depth: usize) -> Stmt {
        let np = self.src.below(4);
        let params = (0..np)
            .map(|i| {
                let t = if self.src.chance(1, 3) {
                    ParamTy::Qubit(if self.src.bool() { Some(self.int_lit()) } else { None })
                } else {
                    ParamTy::Scalar(self.scalar_ty())
                };
                (t, ["p0", "p1", "p2"][i].to_string())
            })
            .collect();
        let ret = if self.src.bool() { Some(self.scalar_ty()) } else { None };
        let nb = self.src.below(4);
        let mut body: Vec<Stmt> = (0..nb).map(|_| self.stmt(depth + 1, false, true, false)).collect();
        if ret.is_some() {
            body.push(Stmt::Return(Some(self.expr_d(2))));
        }
        Stmt::Def { name: self.pick(DEFS).to_string(), params, ret, body }
    }

    pub fn gphase(&mut self) -> Stmt {
        let mods = if self.src.bool() { self.modifiers() } else { vec![] };
        let operands = if !mods.is_empty() && !self.sw.no_operands_after_gphase { (0..1 + self.src.below(2)).map(|_| self.operand()).collect() } else { vec![] };
        if !mods.is_empty() && self.sw.no_operands_after_gphase {
            self.sw.avoided += 1;
        }
        Stmt::GPhase { mods, arg: self.expr_d(2), operands }
    }

    pub fn program(&mut self, max_stmts: usize) -> Vec<Stmt> {
        let mut v = vec![];
        let with_version = self.src.chance(1, 3);
        if with_version {
            v.push(Stmt::Version(["3", "3.0", "3.1"][self.src.below(3)].to_string()));
        }
        if self.src.chance(1, 3) {
            v.push(Stmt::Include("stdgates.inc".to_string()));
        }
        let n = 1 + self.src.below(max_stmts);
        // at file level the parser starts in item mode and switches to the statement loop after
        // the first statement that is not an item (known finding C16); track it for the switches
        let mut item_mode = !with_version;
        for _ in 0..n {
            let mut s = if self.src.chance(1, 12) { self.gphase() } else { self.stmt(0, false, false, true) };
            if matches!(s, Stmt::Empty) && self.sw.no_empty_stmt_at_file_level {
                self.sw.avoided += 1;
                continue;
            }
            if matches!(s, Stmt::Alias { .. }) && self.sw.alias_only_in_item_mode && !item_mode {
                self.sw.avoided += 1;
                s = Stmt::Barrier(vec![]);
            }
            if !is_item(&s) {
                item_mode = false;
            }
            v.push(s);
        }
        v
    }
}

/// Does the parser's `opt_item` dispatch on this statement (so the file-level loop stays in item mode)?
pub fn is_item(s: &Stmt) -> bool {
    !matches!(
        s,
        Stmt::GateCall { .. }
            | Stmt::GPhase { .. }
            | Stmt::MeasureStmt(_)
            | Stmt::Assign { .. }
            | Stmt::ExprStmt(_)
            | Stmt::Return(_)
            | Stmt::Pragma(_)
            | Stmt::Annotated(..)
            | Stmt::Version(_)
            | Stmt::OldDecl { .. }
            | Stmt::Block(_)
            | Stmt::Empty
            | Stmt::Box(_)
    )
}
