// lex: ok
// parse: diag
// sema: skip

const myvar;
const myvar = ;
const myvar = 8.0;
input const myvar = 8;
output const myvar = 8;
const input myvar = 8;
const output myvar = 8;
