#!/usr/bin/env python3
"""Generate /verif/MANIFEST.json from the table below (single source of truth)."""
import json, os, subprocess
ROOT = os.path.dirname(os.path.dirname(os.path.abspath(__file__)))
props = [json.loads(l) for l in open(os.path.join(ROOT, "properties.jsonl"))]
ids = [p["id"] for p in props]

# id -> (technique, level text, level note, design ref)
CLAIMED = {}
def claim(i, technique, text, note, ref):
    CLAIMED[i] = dict(technique=technique, text=text, note=note, ref=ref)

exec(open(os.path.join(ROOT, "tools", "claims.py")).read())

hook_commits = []
try:
    out = subprocess.check_output(["git", "-C", "/repo", "log", "--format=%H %s"]).decode()
    for l in out.splitlines():
        h, s = l.split(" ", 1)
        if "oq3_verif" in s and not s.startswith("fix:"):
            hook_commits.append(h)
except Exception:
    pass

checks = []
for i in ids:
    if i not in CLAIMED:
        continue
    c = CLAIMED[i]
    if i in ("C01", "C02", "C03", "C11", "C12", "C14"):
        c = dict(c)
        c["technique"] += "; the thorough tier adds coverage-guided libFuzzer campaigns (cargo-fuzz targets in harness/fuzz) behind the same oracle functions, with artifacts re-classified in-process"
    checks.append({
        "property_id": i,
        "quick_cmd": f"./check {i} --tier quick",
        "thorough_cmd": f"./check {i} --tier thorough",
        "evidence_file": f"evidence/{i}.json",
        "replay_cmd_template": f"./check {i} --replay {{path}}",
        "engine": "oq3v",
        "level_claimed": {"category": "exploration", "text": c["text"], "design_ref": c["ref"]},
        "level_note": c["note"],
        "technique": c["technique"],
    })
NA = [{"property_id": i, "reason": NOT_YET.get(i, "check not built yet in this session; see DESIGN.md build order")} for i in ids if i not in CLAIMED]
m = {
    "version": 1,
    "setup_cmd": "./setup.sh",
    "hooks": {
        "guard": "cargo feature oq3_verif (crates oq3_parser, oq3_semantics)",
        "enable": "the harness Cargo.toml depends on oq3_parser and oq3_semantics with features = [\"oq3_verif\"]; ./check rebuilds from /repo's working tree",
        "baseline_off_cmd": "cd /repo && cargo test --workspace --no-fail-fast --offline",
        "source_commits": list(reversed(hook_commits)),
        "add_only": True,
    },
    "engines": [
        {"name": "oq3v", "path": "harness", "serves_properties": list(CLAIMED.keys()),
         "kind_free_text": "Rust library + binary: proptest-driven choice-sequence generators with shrinking, bounded-exhaustive enumerators, reference models and abstraction functions, libFuzzer campaigns (thorough tier) with in-process artifact triage, known-findings protocol, evidence writer"},
    ],
    "checks": checks,
    "notes": "Exit codes: 0 held, 1 violation (VIOLATION line + replay file), 2 inconclusive (build failure, watchdog, memory limit). Known findings: known_findings.json (committed, read-only at run time).",
    "not_applicable": NA,
}
json.dump(m, open(os.path.join(ROOT, "MANIFEST.json"), "w"), indent=1)
print("claimed", len(checks), "not claimed", len(NA))
