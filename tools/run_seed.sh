#!/bin/bash
# Developer tool: apply /verif/seeded/<dir>/patch.diff to /repo, run the quick tier of the given
# checks, undo. usage: run_seed.sh <seed-dir-name> <ID> [<ID>...]
set -u
S="$1"; shift
[ -z "$(git -C /repo status --porcelain)" ] || { echo "/repo not clean"; exit 2; }
git -C /repo apply /verif/seeded/$S/patch.diff || exit 2
for id in "$@"; do
  start=$(date +%s)
  /verif/check $id --tier quick > /tmp/run_seed.log 2>&1; rc=$?
  echo "$S vs $id: rc=$rc ($(( $(date +%s)-start ))s) $(grep -m1 'key:' /tmp/run_seed.log | cut -c1-160)"
done
git -C /repo checkout -- .
