// lex: ok
// parse: ok
// sema: todo

complex[float[32]] a = 2.0;
complex[float[32]] b = 1.0;

complex[float[32]] c = a ** b;
