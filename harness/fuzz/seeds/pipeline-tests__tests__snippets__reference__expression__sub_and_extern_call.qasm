// lex: ok
// parse: ok
// sema: panic

bit x = sub_call(10, "01", q1[0], q2);
int[2] y = extern_call(0.5, 10dt);
ambiguous_call(pi);
