// lex: ok
// parse: diag
// sema: skip

// "pragam" is an invalid identifier.
int pragma = 1;
