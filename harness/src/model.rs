//! Reference syntax (DESIGN.md §5.1): model terms, OpenQASM 3 precedence table, printer
//! producing a token list with spans, and the canonical S-expression rendering.

#[derive(Clone, Debug, PartialEq)]
pub enum Ty {
    Bit(Option<Box<Expr>>),
    Int(Option<Box<Expr>>),
    UInt(Option<Box<Expr>>),
    Float(Option<Box<Expr>>),
    Angle(Option<Box<Expr>>),
    Bool,
    Duration,
    Stretch,
    /// complex, complex[float], complex[float[w]]
    Complex(Option<Option<Box<Expr>>>),
}

impl Ty {
    pub fn name(&self) -> &'static str {
        match self {
            Ty::Bit(_) => "bit",
            Ty::Int(_) => "int",
            Ty::UInt(_) => "uint",
            Ty::Float(_) => "float",
            Ty::Angle(_) => "angle",
            Ty::Bool => "bool",
            Ty::Duration => "duration",
            Ty::Stretch => "stretch",
            Ty::Complex(_) => "complex",
        }
    }
    pub fn desig(&self) -> Option<&Expr> {
        match self {
            Ty::Bit(d) | Ty::Int(d) | Ty::UInt(d) | Ty::Float(d) | Ty::Angle(d) => d.as_deref(),
            Ty::Complex(Some(d)) => d.as_deref(),
            _ => None,
        }
    }
}

#[derive(Clone, Copy, Debug, PartialEq, Eq, Hash)]
pub enum BinOp {
    LogOr,
    LogAnd,
    BitOr,
    BitXor,
    BitAnd,
    Eq,
    Neq,
    Lt,
    Le,
    Gt,
    Ge,
    Shl,
    Shr,
    Add,
    Sub,
    Mul,
    Div,
    Rem,
    Pow,
    /// `++` (alias context only)
    Concat,
}

pub const BINOPS: [BinOp; 19] = [
    BinOp::LogOr, BinOp::LogAnd, BinOp::BitOr, BinOp::BitXor, BinOp::BitAnd, BinOp::Eq, BinOp::Neq, BinOp::Lt,
    BinOp::Le, BinOp::Gt, BinOp::Ge, BinOp::Shl, BinOp::Shr, BinOp::Add, BinOp::Sub, BinOp::Mul, BinOp::Div,
    BinOp::Rem, BinOp::Pow,
];

impl BinOp {
    pub fn text(self) -> &'static str {
        use BinOp::*;
        match self {
            LogOr => "||",
            LogAnd => "&&",
            BitOr => "|",
            BitXor => "^",
            BitAnd => "&",
            Eq => "==",
            Neq => "!=",
            Lt => "<",
            Le => "<=",
            Gt => ">",
            Ge => ">=",
            Shl => "<<",
            Shr => ">>",
            Add => "+",
            Sub => "-",
            Mul => "*",
            Div => "/",
            Rem => "%",
            Pow => "**",
            Concat => "++",
        }
    }
    /// OpenQASM 3 precedence (higher binds tighter) and right-associativity.
    /// Table (tightest first): call/index/cast; ** (right); unary ! - ~; * / %; + -; << >>;
    /// < <= > >=; == !=; &; ^; |; &&; ||.  `++` is below everything (alias context).
    pub fn prec(self) -> (u8, bool) {
        use BinOp::*;
        match self {
            Pow => (13, true),
            Mul | Div | Rem => (11, false),
            Add | Sub => (10, false),
            Shl | Shr => (9, false),
            Lt | Le | Gt | Ge => (8, false),
            Eq | Neq => (7, false),
            BitAnd => (6, false),
            BitXor => (5, false),
            BitOr => (4, false),
            LogAnd => (3, false),
            LogOr => (2, false),
            Concat => (1, false),
        }
    }
}

pub const PREC_UNARY: u8 = 12;
pub const PREC_POSTFIX: u8 = 14;

#[derive(Clone, Copy, Debug, PartialEq, Eq, Hash)]
pub enum UnOp {
    Neg,
    Not,
    BitNot,
}

impl UnOp {
    pub fn text(self) -> &'static str {
        match self {
            UnOp::Neg => "-",
            UnOp::Not => "!",
            UnOp::BitNot => "~",
        }
    }
}

#[derive(Clone, Debug, PartialEq)]
pub enum IndexItem {
    Expr(Expr),
    Range(Expr, Option<Expr>, Expr),
}

#[derive(Clone, Debug, PartialEq)]
pub enum Index {
    List(Vec<IndexItem>),
    Set(Vec<Expr>),
}

#[derive(Clone, Debug, PartialEq)]
pub enum Operand {
    Id(String),
    Indexed(String, Vec<Index>),
    Hw(String),
}

#[derive(Clone, Debug, PartialEq)]
pub enum Expr {
    Int(String),
    Float(String),
    Bool(bool),
    BitStr(String),
    /// numeric spelling, is_float, unit (ns us µs ms s dt), separated by a blank?
    Timing(String, bool, String, bool),
    /// numeric spelling, is_float, separated by a blank?
    Imag(String, bool, bool),
    Ident(String),
    Hw(String),
    Paren(Box<Expr>),
    Bin(BinOp, Box<Expr>, Box<Expr>),
    Un(UnOp, Box<Expr>),
    Cast(Ty, Box<Expr>),
    Call(String, Vec<Expr>),
    /// identifier with one or more index operators
    IndexedId(String, Vec<Index>),
    /// index applied to a non-identifier expression
    IndexExpr(Box<Expr>, Index),
    Measure(Operand),
    // ---- wider grammar W (C03 crash-freedom only) ----
    ArrayLit(Vec<Expr>),
    Str(String),
}

#[derive(Clone, Debug, PartialEq)]
pub enum Modifier {
    Inv,
    Pow(Expr),
    Ctrl(Option<Expr>),
    NegCtrl(Option<Expr>),
}

#[derive(Clone, Debug, PartialEq)]
pub enum Body {
    Block(Vec<Stmt>),
    Single(Box<Stmt>),
}

impl Body {
    pub fn stmts(&self) -> Vec<&Stmt> {
        match self {
            Body::Block(v) => v.iter().collect(),
            Body::Single(s) => vec![s.as_ref()],
        }
    }
}

#[derive(Clone, Debug, PartialEq)]
pub enum ForIter {
    Range(Expr, Option<Expr>, Expr),
    Set(Vec<Expr>),
    Expr(Expr),
}

#[derive(Clone, Debug, PartialEq)]
pub enum AssignOp {
    Assign,
    Compound(BinOp),
}

#[derive(Clone, Debug, PartialEq)]
pub enum LValue {
    Id(String),
    Indexed(String, Vec<Index>),
}

#[derive(Clone, Debug, PartialEq)]
pub enum ParamTy {
    Scalar(Ty),
    Qubit(Option<Expr>),
}

#[derive(Clone, Debug, PartialEq)]
pub enum Stmt {
    Version(String),
    Include(String),
    ClassicalDecl { konst: bool, ty: Ty, name: String, init: Option<Expr> },
    ArrayDecl { base: Ty, dims: Vec<Expr>, name: String, init: Option<Expr> },
    QubitDecl { size: Option<Expr>, name: String },
    HwQubitDecl(String),
    OldDecl { qreg: bool, name: String, size: Expr },
    IoDecl { input: bool, ty: Ty, name: String },
    /// `input array[int[8], 4] a;`
    IoArrayDecl { input: bool, base: Ty, dims: Vec<Expr>, name: String },
    Alias { name: String, value: Expr },
    Gate { name: String, params: Option<Vec<String>>, qubits: Vec<String>, body: Vec<Stmt> },
    Def { name: String, params: Vec<(ParamTy, String)>, ret: Option<Ty>, body: Vec<Stmt> },
    GateCall { mods: Vec<Modifier>, name: String, args: Option<Vec<Expr>>, operands: Vec<Operand> },
    GPhase { mods: Vec<Modifier>, arg: Expr, operands: Vec<Operand> },
    MeasureStmt(Operand),
    Reset(Operand),
    Barrier(Vec<Operand>),
    Delay(Expr, Vec<Operand>),
    If { cond: Expr, then: Body, els: Option<Body> },
    While { cond: Expr, body: Body },
    For { ty: Ty, var: String, iter: ForIter, body: Body },
    Switch { control: Expr, cases: Vec<(Vec<Expr>, Vec<Stmt>)>, default: Option<Vec<Stmt>> },
    Break,
    Continue,
    End,
    Return(Option<Expr>),
    Assign { target: LValue, op: AssignOp, value: Expr },
    ExprStmt(Expr),
    Block(Vec<Stmt>),
    Empty,
    Pragma(String),
    Annotated(Vec<String>, Box<Stmt>),
    // ---- wider grammar W ----
    Extern { name: String, params: Vec<Ty>, ret: Option<Ty> },
    Cal(String),
    DefCalGrammar(String),
    Box(Vec<Stmt>),
}

impl Stmt {
    pub fn kind(&self) -> &'static str {
        use Stmt::*;
        match self {
            Version(_) => "version",
            Include(_) => "include",
            ClassicalDecl { konst: true, .. } => "const-decl",
            ClassicalDecl { .. } => "classical-decl",
            ArrayDecl { .. } => "array-decl",
            QubitDecl { .. } => "qubit-decl",
            HwQubitDecl(_) => "hw-qubit-decl",
            OldDecl { .. } => "old-decl",
            IoDecl { .. } => "io-decl",
            IoArrayDecl { .. } => "io-array-decl",
            Alias { .. } => "alias",
            Gate { .. } => "gate",
            Def { .. } => "def",
            GateCall { mods, .. } if mods.is_empty() => "gate-call",
            GateCall { .. } => "modified-gate-call",
            GPhase { .. } => "gphase",
            MeasureStmt(_) => "measure",
            Reset(_) => "reset",
            Barrier(_) => "barrier",
            Delay(..) => "delay",
            If { .. } => "if",
            While { .. } => "while",
            For { .. } => "for",
            Switch { .. } => "switch",
            Break => "break",
            Continue => "continue",
            End => "end",
            Return(_) => "return",
            Assign { op: AssignOp::Assign, .. } => "assign",
            Assign { .. } => "compound-assign",
            ExprStmt(_) => "expr-stmt",
            Block(_) => "block",
            Empty => "empty",
            Pragma(_) => "pragma",
            Annotated(..) => "annotated",
            Extern { .. } => "extern",
            Cal(_) => "cal",
            DefCalGrammar(_) => "defcalgrammar",
            Box(_) => "box",
        }
    }
}

// ------------------------------------------------------------------------------------------
// Printer: tokens with classes (for the layout) and spans of model nodes.
// ------------------------------------------------------------------------------------------

#[derive(Clone, Copy, PartialEq, Eq, Debug)]
pub enum TC {
    Word,
    Num,
    NumDot,
    Str,
    Punct,
    /// a pragma / annotation line: needs a following line break, nothing else on its line after it
    Line,
}

#[derive(Clone, Debug)]
pub struct Tok {
    pub text: String,
    pub class: TC,
    /// the gap before this token must not contain a line break or comment (inside `10 ns`)
    pub tight_before: bool,
}

#[derive(Clone, Debug)]
pub struct Span {
    pub start: usize, // token index
    pub end: usize,   // token index (exclusive)
    pub label: String,
    pub is_stmt: bool,
    pub depth: usize,
}

#[derive(Default)]
pub struct Printer {
    pub toks: Vec<Tok>,
    pub spans: Vec<Span>,
    depth: usize,
}

fn is_word(s: &str) -> bool {
    s.chars().next().map(|c| c.is_alphabetic() || c == '_' || c == '$').unwrap_or(false)
}

impl Printer {
    pub fn w(&mut self, s: &str) {
        let class = if is_word(s) { TC::Word } else { TC::Punct };
        self.toks.push(Tok { text: s.to_string(), class, tight_before: false });
    }
    fn num(&mut self, s: &str) {
        let class = if s.ends_with('.') { TC::NumDot } else { TC::Num };
        self.toks.push(Tok { text: s.to_string(), class, tight_before: false });
    }
    fn open(&mut self, label: &str, is_stmt: bool) -> usize {
        self.spans.push(Span { start: self.toks.len(), end: 0, label: label.to_string(), is_stmt, depth: self.depth });
        self.depth += 1;
        self.spans.len() - 1
    }
    fn close(&mut self, id: usize) {
        self.depth -= 1;
        self.spans[id].end = self.toks.len();
    }

    pub fn ty(&mut self, t: &Ty) {
        self.w(t.name());
        match t {
            Ty::Complex(Some(inner)) => {
                self.w("[");
                self.w("float");
                if let Some(d) = inner {
                    self.w("[");
                    self.expr(d, 0);
                    self.w("]");
                }
                self.w("]");
            }
            _ => {
                if let Some(d) = t.desig() {
                    self.w("[");
                    self.expr(d, 0);
                    self.w("]");
                }
            }
        }
    }

    fn index(&mut self, ix: &Index) {
        self.w("[");
        match ix {
            Index::Set(es) => {
                self.w("{");
                self.comma_list(es);
                self.w("}");
            }
            Index::List(items) => {
                for (i, it) in items.iter().enumerate() {
                    if i > 0 {
                        self.w(",");
                    }
                    match it {
                        IndexItem::Expr(e) => self.expr(e, 0),
                        IndexItem::Range(a, s, b) => {
                            self.expr(a, 0);
                            self.w(":");
                            if let Some(s) = s {
                                self.expr(s, 0);
                                self.w(":");
                            }
                            self.expr(b, 0);
                        }
                    }
                }
            }
        }
        self.w("]");
    }

    fn comma_list(&mut self, es: &[Expr]) {
        for (i, e) in es.iter().enumerate() {
            if i > 0 {
                self.w(",");
            }
            self.expr(e, 0);
        }
    }

    pub fn operand(&mut self, o: &Operand) {
        match o {
            Operand::Id(n) => self.w(n),
            Operand::Hw(n) => self.w(n),
            Operand::Indexed(n, ixs) => {
                self.w(n);
                for ix in ixs {
                    self.index(ix);
                }
            }
        }
    }

    fn operands(&mut self, os: &[Operand]) {
        for (i, o) in os.iter().enumerate() {
            if i > 0 {
                self.w(",");
            }
            self.operand(o);
        }
    }

    /// Print `e` in a context that requires binding power >= `min_prec`, parenthesising exactly
    /// when the OpenQASM 3 table requires it.
    pub fn expr(&mut self, e: &Expr, min_prec: u8) {
        let id = self.open(expr_label(e), false);
        let p = expr_prec(e);
        let need = p < min_prec;
        if need {
            self.w("(");
        }
        match e {
            Expr::Int(s) => self.num(s),
            Expr::Float(s) => self.num(s),
            Expr::Bool(b) => self.w(if *b { "true" } else { "false" }),
            Expr::BitStr(s) => self.toks.push(Tok { text: s.clone(), class: TC::Str, tight_before: false }),
            Expr::Str(s) => self.toks.push(Tok { text: s.clone(), class: TC::Str, tight_before: false }),
            Expr::Timing(n, _, unit, spaced) => {
                self.num(n);
                self.toks.push(Tok { text: unit.clone(), class: TC::Word, tight_before: true });
                let _ = spaced;
            }
            Expr::Imag(n, _, spaced) => {
                self.num(n);
                self.toks.push(Tok { text: "im".to_string(), class: TC::Word, tight_before: true });
                let _ = spaced;
            }
            Expr::Ident(n) => self.w(n),
            Expr::Hw(n) => self.w(n),
            Expr::Paren(inner) => {
                self.w("(");
                self.expr(inner, 0);
                self.w(")");
            }
            Expr::Bin(op, l, r) => {
                let (p, right) = op.prec();
                let (lp, rp) = if right { (p + 1, p) } else { (p, p + 1) };
                // the base of `**` may not be a bare unary expression: -a ** b means -(a ** b)
                self.expr(l, lp);
                self.w(op.text());
                // a unary operand on the right of any operator needs no parentheses
                let rp = if matches!(**r, Expr::Un(..)) && !matches!(op, BinOp::Pow) { rp.min(PREC_UNARY) } else { rp };
                let rp = if matches!(**r, Expr::Un(..)) && matches!(op, BinOp::Pow) { PREC_UNARY } else { rp };
                self.expr(r, rp);
            }
            Expr::Un(op, x) => {
                self.w(op.text());
                // operand: anything that binds at least as tightly as a unary operator, or `**`
                self.expr(x, PREC_UNARY);
            }
            Expr::Cast(t, x) => {
                self.ty(t);
                self.w("(");
                self.expr(x, 0);
                self.w(")");
            }
            Expr::Call(f, args) => {
                self.w(f);
                self.w("(");
                self.comma_list(args);
                self.w(")");
            }
            Expr::IndexedId(n, ixs) => {
                self.w(n);
                for ix in ixs {
                    self.index(ix);
                }
            }
            Expr::IndexExpr(b, ix) => {
                self.expr(b, PREC_POSTFIX);
                self.index(ix);
            }
            Expr::Measure(o) => {
                self.w("measure");
                self.operand(o);
            }
            Expr::ArrayLit(es) => {
                self.w("{");
                self.comma_list(es);
                self.w("}");
            }
        }
        if need {
            self.w(")");
        }
        self.close(id);
    }

    fn modifiers(&mut self, mods: &[Modifier]) {
        for m in mods {
            match m {
                Modifier::Inv => self.w("inv"),
                Modifier::Pow(e) => {
                    self.w("pow");
                    self.w("(");
                    self.expr(e, 0);
                    self.w(")");
                }
                Modifier::Ctrl(e) | Modifier::NegCtrl(e) => {
                    self.w(if matches!(m, Modifier::Ctrl(_)) { "ctrl" } else { "negctrl" });
                    if let Some(e) = e {
                        self.w("(");
                        self.expr(e, 0);
                        self.w(")");
                    }
                }
            }
            self.w("@");
        }
    }

    fn block(&mut self, stmts: &[Stmt]) {
        self.w("{");
        for s in stmts {
            self.stmt(s);
        }
        self.w("}");
    }

    fn body(&mut self, b: &Body) {
        match b {
            Body::Block(v) => self.block(v),
            Body::Single(s) => self.stmt(s),
        }
    }

    pub fn stmt(&mut self, s: &Stmt) {
        let id = self.open(s.kind(), true);
        match s {
            Stmt::Version(v) => {
                // a single lexeme for the lexer: `OPENQASM<blank>3.0`
                self.toks.push(Tok { text: format!("OPENQASM {v}"), class: TC::Word, tight_before: false });
                self.w(";");
            }
            Stmt::Include(f) => {
                self.w("include");
                self.toks.push(Tok { text: format!("\"{f}\""), class: TC::Str, tight_before: false });
                self.w(";");
            }
            Stmt::ClassicalDecl { konst, ty, name, init } => {
                if *konst {
                    self.w("const");
                }
                self.ty(ty);
                self.w(name);
                if let Some(e) = init {
                    self.w("=");
                    self.expr(e, 0);
                }
                self.w(";");
            }
            Stmt::ArrayDecl { base, dims, name, init } => {
                self.w("array");
                self.w("[");
                self.ty(base);
                self.w(",");
                self.comma_list(dims);
                self.w("]");
                self.w(name);
                if let Some(e) = init {
                    self.w("=");
                    self.expr(e, 0);
                }
                self.w(";");
            }
            Stmt::QubitDecl { size, name } => {
                self.w("qubit");
                if let Some(e) = size {
                    self.w("[");
                    self.expr(e, 0);
                    self.w("]");
                }
                self.w(name);
                self.w(";");
            }
            Stmt::HwQubitDecl(n) => {
                self.w("qubit");
                self.w(n);
                self.w(";");
            }
            Stmt::OldDecl { qreg, name, size } => {
                self.w(if *qreg { "qreg" } else { "creg" });
                self.w(name);
                self.w("[");
                self.expr(size, 0);
                self.w("]");
                self.w(";");
            }
            Stmt::IoDecl { input, ty, name } => {
                self.w(if *input { "input" } else { "output" });
                self.ty(ty);
                self.w(name);
                self.w(";");
            }
            Stmt::IoArrayDecl { input, base, dims, name } => {
                self.w(if *input { "input" } else { "output" });
                self.w("array");
                self.w("[");
                self.ty(base);
                self.w(",");
                self.comma_list(dims);
                self.w("]");
                self.w(name);
                self.w(";");
            }
            Stmt::Alias { name, value } => {
                self.w("let");
                self.w(name);
                self.w("=");
                self.expr(value, 0);
                self.w(";");
            }
            Stmt::Gate { name, params, qubits, body } => {
                self.w("gate");
                self.w(name);
                if let Some(ps) = params {
                    self.w("(");
                    for (i, p) in ps.iter().enumerate() {
                        if i > 0 {
                            self.w(",");
                        }
                        self.w(p);
                    }
                    self.w(")");
                }
                for (i, q) in qubits.iter().enumerate() {
                    if i > 0 {
                        self.w(",");
                    }
                    self.w(q);
                }
                self.block(body);
            }
            Stmt::Def { name, params, ret, body } => {
                self.w("def");
                self.w(name);
                self.w("(");
                for (i, (t, n)) in params.iter().enumerate() {
                    if i > 0 {
                        self.w(",");
                    }
                    match t {
                        ParamTy::Scalar(t) => self.ty(t),
                        ParamTy::Qubit(sz) => {
                            self.w("qubit");
                            if let Some(e) = sz {
                                self.w("[");
                                self.expr(e, 0);
                                self.w("]");
                            }
                        }
                    }
                    self.w(n);
                }
                self.w(")");
                if let Some(t) = ret {
                    self.w("->");
                    self.ty(t);
                }
                self.block(body);
            }
            Stmt::GateCall { mods, name, args, operands } => {
                self.modifiers(mods);
                self.w(name);
                if let Some(a) = args {
                    self.w("(");
                    self.comma_list(a);
                    self.w(")");
                }
                self.operands(operands);
                self.w(";");
            }
            Stmt::GPhase { mods, arg, operands } => {
                self.modifiers(mods);
                self.w("gphase");
                self.w("(");
                self.expr(arg, 0);
                self.w(")");
                self.operands(operands);
                self.w(";");
            }
            Stmt::MeasureStmt(o) => {
                self.w("measure");
                self.operand(o);
                self.w(";");
            }
            Stmt::Reset(o) => {
                self.w("reset");
                self.operand(o);
                self.w(";");
            }
            Stmt::Barrier(os) => {
                self.w("barrier");
                self.operands(os);
                self.w(";");
            }
            Stmt::Delay(d, os) => {
                self.w("delay");
                self.w("[");
                self.expr(d, 0);
                self.w("]");
                self.operands(os);
                self.w(";");
            }
            Stmt::If { cond, then, els } => {
                self.w("if");
                self.w("(");
                self.expr(cond, 0);
                self.w(")");
                self.body(then);
                if let Some(e) = els {
                    self.w("else");
                    self.body(e);
                }
            }
            Stmt::While { cond, body } => {
                self.w("while");
                self.w("(");
                self.expr(cond, 0);
                self.w(")");
                self.body(body);
            }
            Stmt::For { ty, var, iter, body } => {
                self.w("for");
                self.ty(ty);
                self.w(var);
                self.w("in");
                match iter {
                    ForIter::Range(a, s, b) => {
                        self.w("[");
                        self.expr(a, 0);
                        self.w(":");
                        if let Some(s) = s {
                            self.expr(s, 0);
                            self.w(":");
                        }
                        self.expr(b, 0);
                        self.w("]");
                    }
                    ForIter::Set(es) => {
                        self.w("{");
                        self.comma_list(es);
                        self.w("}");
                    }
                    ForIter::Expr(e) => self.expr(e, 0),
                }
                self.body(body);
            }
            Stmt::Switch { control, cases, default } => {
                self.w("switch");
                self.w("(");
                self.expr(control, 0);
                self.w(")");
                self.w("{");
                for (vals, body) in cases {
                    self.w("case");
                    self.comma_list(vals);
                    self.block(body);
                }
                if let Some(d) = default {
                    self.w("default");
                    self.block(d);
                }
                self.w("}");
            }
            Stmt::Break => {
                self.w("break");
                self.w(";");
            }
            Stmt::Continue => {
                self.w("continue");
                self.w(";");
            }
            Stmt::End => {
                self.w("end");
                self.w(";");
            }
            Stmt::Return(e) => {
                self.w("return");
                if let Some(e) = e {
                    self.expr(e, 0);
                }
                self.w(";");
            }
            Stmt::Assign { target, op, value } => {
                match target {
                    LValue::Id(n) => self.w(n),
                    LValue::Indexed(n, ixs) => {
                        self.w(n);
                        for ix in ixs {
                            self.index(ix);
                        }
                    }
                }
                match op {
                    AssignOp::Assign => self.w("="),
                    AssignOp::Compound(b) => self.w(&format!("{}=", b.text())),
                }
                self.expr(value, 0);
                self.w(";");
            }
            Stmt::ExprStmt(e) => {
                self.expr(e, 0);
                self.w(";");
            }
            Stmt::Block(v) => self.block(v),
            Stmt::Empty => self.w(";"),
            Stmt::Pragma(t) => self.toks.push(Tok { text: t.clone(), class: TC::Line, tight_before: false }),
            Stmt::Annotated(anns, inner) => {
                for a in anns {
                    self.toks.push(Tok { text: a.clone(), class: TC::Line, tight_before: false });
                }
                self.stmt(inner);
            }
            Stmt::Extern { name, params, ret } => {
                self.w("extern");
                self.w(name);
                self.w("(");
                for (i, t) in params.iter().enumerate() {
                    if i > 0 {
                        self.w(",");
                    }
                    self.ty(t);
                }
                self.w(")");
                if let Some(t) = ret {
                    self.w("->");
                    self.ty(t);
                }
                self.w(";");
            }
            Stmt::Cal(body) => {
                self.w("cal");
                self.w("{");
                if !body.is_empty() {
                    self.w(body);
                }
                self.w("}");
            }
            Stmt::DefCalGrammar(g) => {
                self.w("defcalgrammar");
                self.toks.push(Tok { text: format!("\"{g}\""), class: TC::Str, tight_before: false });
                self.w(";");
            }
            Stmt::Box(v) => {
                self.w("box");
                self.block(v);
            }
        }
        self.close(id);
    }

    pub fn program(&mut self, stmts: &[Stmt]) {
        for s in stmts {
            self.stmt(s);
        }
    }
}

pub fn expr_label(e: &Expr) -> &'static str {
    match e {
        Expr::Int(_) => "int-lit",
        Expr::Float(_) => "float-lit",
        Expr::Bool(_) => "bool-lit",
        Expr::BitStr(_) => "bitstring",
        Expr::Str(_) => "string",
        Expr::Timing(..) => "timing-lit",
        Expr::Imag(..) => "imag-lit",
        Expr::Ident(_) => "ident",
        Expr::Hw(_) => "hw",
        Expr::Paren(_) => "paren",
        Expr::Bin(..) => "binary",
        Expr::Un(..) => "unary",
        Expr::Cast(..) => "cast",
        Expr::Call(..) => "call",
        Expr::IndexedId(..) => "indexed-id",
        Expr::IndexExpr(..) => "index-expr",
        Expr::Measure(_) => "measure-expr",
        Expr::ArrayLit(_) => "array-lit",
    }
}

pub fn expr_prec(e: &Expr) -> u8 {
    match e {
        Expr::Bin(op, ..) => op.prec().0,
        Expr::Un(..) => PREC_UNARY,
        // `measure q` is only allowed as a whole right-hand side; parenthesise elsewhere
        Expr::Measure(_) => 1,
        _ => 15,
    }
}

// ------------------------------------------------------------------------------------------
// Canonical rendering of model terms (parentheses dropped).
// ------------------------------------------------------------------------------------------

pub fn r_ty(t: &Ty) -> String {
    match t {
        Ty::Complex(None) => "(ty complex)".into(),
        Ty::Complex(Some(None)) => "(ty complex (ty float))".into(),
        Ty::Complex(Some(Some(d))) => format!("(ty complex (ty float (w {})))", r_expr(d)),
        _ => match t.desig() {
            Some(d) => format!("(ty {} (w {}))", t.name(), r_expr(d)),
            None => format!("(ty {})", t.name()),
        },
    }
}

pub fn r_index(ix: &Index) -> String {
    match ix {
        Index::Set(es) => format!("[set {}]", es.iter().map(r_expr).collect::<Vec<_>>().join(" ")),
        Index::List(items) => format!(
            "[{}]",
            items
                .iter()
                .map(|it| match it {
                    IndexItem::Expr(e) => r_expr(e),
                    IndexItem::Range(a, s, b) => format!("(range {} {} {})", r_expr(a), s.as_ref().map(r_expr).unwrap_or("_".into()), r_expr(b)),
                })
                .collect::<Vec<_>>()
                .join(" ")
        ),
    }
}

pub fn r_operand(o: &Operand) -> String {
    match o {
        Operand::Id(n) => format!("(id {n})"),
        Operand::Hw(n) => format!("(hw {n})"),
        Operand::Indexed(n, ixs) => format!("(idx-id {n} {})", ixs.iter().map(r_index).collect::<Vec<_>>().join(" ")),
    }
}

pub fn r_expr(e: &Expr) -> String {
    match e {
        Expr::Int(s) => format!("(int {s})"),
        Expr::Float(s) => format!("(float {s})"),
        Expr::Bool(b) => format!("(bool {b})"),
        Expr::BitStr(s) => format!("(bits {s})"),
        Expr::Str(s) => format!("(str {s})"),
        Expr::Timing(n, f, u, _) => format!("(timing ({} {n}) {u})", if *f { "float" } else { "int" }),
        Expr::Imag(n, f, _) => format!("(timing ({} {n}) im)", if *f { "float" } else { "int" }),
        Expr::Ident(n) => format!("(id {n})"),
        Expr::Hw(n) => format!("(hw {n})"),
        Expr::Paren(x) => r_expr(x),
        Expr::Bin(op, l, r) => format!("(bin {} {} {})", op.text(), r_expr(l), r_expr(r)),
        Expr::Un(op, x) => format!("(un {} {})", op.text(), r_expr(x)),
        Expr::Cast(t, x) => format!("(cast {} {})", r_ty(t), r_expr(x)),
        Expr::Call(f, a) => format!("(call {f} (args{}))", a.iter().map(|x| format!(" {}", r_expr(x))).collect::<String>()),
        Expr::IndexedId(n, ixs) => format!("(idx-id {n} {})", ixs.iter().map(r_index).collect::<Vec<_>>().join(" ")),
        Expr::IndexExpr(b, ix) => format!("(idx {} {})", r_expr(b), r_index(ix)),
        Expr::Measure(o) => format!("(measure {})", r_operand(o)),
        Expr::ArrayLit(es) => format!("(array-lit{})", es.iter().map(|x| format!(" {}", r_expr(x))).collect::<String>()),
    }
}

fn r_block(v: &[Stmt]) -> String {
    format!("{{{}}}", r_program_lines(v).iter().map(|s| format!(" {s}")).collect::<String>())
}

fn r_body(b: &Body) -> String {
    match b {
        Body::Block(v) => format!("(block {})", r_block(v)),
        Body::Single(s) => format!("(single {})", r_stmt(s)),
    }
}

fn r_mods(mods: &[Modifier]) -> String {
    mods.iter()
        .map(|m| match m {
            Modifier::Inv => " inv".to_string(),
            Modifier::Pow(e) => format!(" (pow {})", r_expr(e)),
            Modifier::Ctrl(e) => format!(" (ctrl {})", e.as_ref().map(r_expr).unwrap_or("_".into())),
            Modifier::NegCtrl(e) => format!(" (negctrl {})", e.as_ref().map(r_expr).unwrap_or("_".into())),
        })
        .collect()
}

pub fn r_stmt(s: &Stmt) -> String {
    match s {
        Stmt::Version(_) => "(version)".to_string(),
        Stmt::Include(f) => format!("(include {f})"),
        Stmt::ClassicalDecl { konst, ty, name, init } => format!(
            "(decl{} {} {name} {})",
            if *konst { " const" } else { "" },
            r_ty(ty),
            init.as_ref().map(r_expr).unwrap_or("_".into())
        ),
        Stmt::ArrayDecl { base, name, init, .. } => format!("(array-decl {} {name} {})", r_ty(base), init.as_ref().map(r_expr).unwrap_or("_".into())),
        Stmt::QubitDecl { size, name } => format!("(qubit-decl {} {name})", size.as_ref().map(r_expr).unwrap_or("_".into())),
        Stmt::HwQubitDecl(n) => format!("(qubit-decl-hw {n})"),
        Stmt::OldDecl { qreg, .. } => format!("(old-decl {})", if *qreg { "qreg" } else { "creg" }),
        Stmt::IoDecl { input, ty, name } => format!("(io-decl {} {} {name})", if *input { "input" } else { "output" }, r_ty(ty)),
        Stmt::IoArrayDecl { input, base, name, .. } => format!("(io-array-decl {} {} {name})", if *input { "input" } else { "output" }, r_ty(base)),
        Stmt::Alias { name, value } => format!("(alias {name} {})", r_expr(value)),
        Stmt::Gate { name, params, qubits, body } => format!(
            "(gate {name} (params{}) (qubits {}) {})",
            match params {
                None => " _".to_string(),
                Some(ps) => ps.iter().map(|p| format!(" {p}")).collect::<String>(),
            },
            qubits.join(" "),
            r_block(body)
        ),
        Stmt::Def { name, params, ret, body } => format!(
            "(def {name} (params{}) (ret {}) {})",
            params
                .iter()
                .map(|(t, n)| match t {
                    ParamTy::Scalar(t) => format!(" ({} {n})", r_ty(t)),
                    ParamTy::Qubit(sz) => format!(" ((ty qubit{}) {n})", sz.as_ref().map(|e| format!(" (w {})", r_expr(e))).unwrap_or_default()),
                })
                .collect::<String>(),
            ret.as_ref().map(r_ty).unwrap_or("_".into()),
            r_block(body)
        ),
        Stmt::GateCall { mods, name, args, operands } => format!(
            "(gate-call (mods{}) {name} (args{}) (operands {}))",
            r_mods(mods),
            match args {
                None => " _".to_string(),
                Some(a) => a.iter().map(|x| format!(" {}", r_expr(x))).collect::<String>(),
            },
            operands.iter().map(r_operand).collect::<Vec<_>>().join(" ")
        ),
        Stmt::GPhase { mods, arg, operands } => format!(
            "(gphase (mods{}) {} (operands{}))",
            r_mods(mods),
            r_expr(arg),
            operands.iter().map(|o| format!(" {}", r_operand(o))).collect::<String>()
        ),
        Stmt::MeasureStmt(o) => format!("(expr-stmt (measure {}))", r_operand(o)),
        Stmt::Reset(o) => format!("(reset {})", r_operand(o)),
        Stmt::Barrier(os) => format!("(barrier {})", os.iter().map(r_operand).collect::<Vec<_>>().join(" ")),
        Stmt::Delay(d, os) => format!("(delay {} {})", r_expr(d), os.iter().map(r_operand).collect::<Vec<_>>().join(" ")),
        Stmt::If { cond, then, els } => format!("(if {} {} {})", r_expr(cond), r_body(then), els.as_ref().map(r_body).unwrap_or("_".into())),
        Stmt::While { cond, body } => format!("(while {} {})", r_expr(cond), r_body(body)),
        Stmt::For { ty, var, iter, body } => format!(
            "(for {} {var} {} {})",
            r_ty(ty),
            match iter {
                ForIter::Range(a, s, b) => format!("(range {} {} {})", r_expr(a), s.as_ref().map(r_expr).unwrap_or("_".into()), r_expr(b)),
                ForIter::Set(es) => format!("(set {})", es.iter().map(r_expr).collect::<Vec<_>>().join(" ")),
                ForIter::Expr(e) => format!("(iter {})", r_expr(e)),
            },
            r_body(body)
        ),
        Stmt::Switch { control, cases, default } => format!(
            "(switch {}{} (default {}))",
            r_expr(control),
            cases
                .iter()
                .map(|(vals, body)| format!(" (case ({}) {})", vals.iter().map(r_expr).collect::<Vec<_>>().join(" "), r_block(body)))
                .collect::<String>(),
            default.as_ref().map(|d| r_block(d)).unwrap_or("_".into())
        ),
        Stmt::Break => "(break)".into(),
        Stmt::Continue => "(continue)".into(),
        Stmt::End => "(end)".into(),
        Stmt::Return(e) => format!("(expr-stmt (return {}))", e.as_ref().map(r_expr).unwrap_or("_".into())),
        Stmt::Assign { target, op, value } => {
            let t = match target {
                LValue::Id(n) => format!("(id {n})"),
                LValue::Indexed(n, ixs) => format!("(idx-id {n} {})", ixs.iter().map(r_index).collect::<Vec<_>>().join(" ")),
            };
            match op {
                AssignOp::Assign => format!("(assign {t} {})", r_expr(value)),
                AssignOp::Compound(b) => format!("(expr-stmt (bin {}= {t} {}))", b.text(), r_expr(value)),
            }
        }
        Stmt::ExprStmt(e) => format!("(expr-stmt {})", r_expr(e)),
        Stmt::Block(v) => format!("(expr-stmt (block {}))", r_block(v)),
        Stmt::Empty => "(empty)".into(),
        Stmt::Pragma(t) => format!("(pragma-text {})", t.strip_prefix("#pragma").or(t.strip_prefix("pragma")).unwrap_or(t)),
        Stmt::Annotated(anns, inner) => format!("{} {}", anns.iter().map(|a| format!("(annotation {a})")).collect::<Vec<_>>().join(" "), r_stmt(inner)),
        
        Stmt::Extern { name, .. } => format!("(extern {name})"),
        Stmt::Cal(_) => "(cal)".into(),
        Stmt::DefCalGrammar(g) => format!("(defcalgrammar {g})"),
        Stmt::Box(v) => format!("(expr-stmt (box {}))", r_block(v)),
    }
}

/// One line per statement of the file-level list (annotations are statements of their own).
pub fn r_program_lines(stmts: &[Stmt]) -> Vec<String> {
    let mut out = vec![];
    for s in stmts {
        match s {
            Stmt::Annotated(anns, inner) => {
                for a in anns {
                    out.push(format!("(annotation {a})"));
                }
                out.push(r_stmt(inner));
            }
            Stmt::Empty => {}
            _ => out.push(r_stmt(s)),
        }
    }
    out
}

pub fn r_program(stmts: &[Stmt]) -> String {
    r_program_lines(stmts).join("\n")
}
