// lex: ok
// parse: ok
// sema: ok

@bind [2:3]
input uint[16] x;

@rename other
output float[64] var;

@hello world
int[8] y;

@outer
def fn() {
  @inner word1
  uint[16] x;
  @inner word2
  return;
}

@first
@second @not_third
uint[16] z;

@binds tightly
x = 1; x = 2;
