// lex: ok
// parse: panic
// sema: skip

include 'foo2';
include "foo";
include "001";
