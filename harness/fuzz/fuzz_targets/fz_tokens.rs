#![no_main]
// bytes -> indices into the token alphabet A + separator choices -> the same text oracles (reaches grammar logic instead of dying in the lexer)
mod common;
use libfuzzer_sys::fuzz_target;

fuzz_target!(|data: &[u8]| {
    common::init();
    let (_, fails) = oq3_verif_harness::fuzzrun::oracle("fz_tokens", data);
    common::judge(fails, &["C01:", "C02:", "C11:", "C12:", "C14:"]);
});
