#![no_main]
// bytes -> indices into the token alphabet A (+ separator choices) -> same oracles; reaches
// grammar logic instead of dying in the lexer
mod common;
use libfuzzer_sys::fuzz_target;
use oq3_verif_harness::textgen::ALPHABET;
use oq3_verif_harness::textprops::oracle_text;

fuzz_target!(|data: &[u8]| {
    common::init();
    let mut text = String::new();
    for pair in data.chunks(2) {
        let tok = &ALPHABET[pair[0] as usize % ALPHABET.len()];
        text.push_str(tok.text);
        if tok.line {
            text.push('\n');
        } else {
            match pair.get(1).copied().unwrap_or(0) % 8 {
                0 => {}
                1 | 2 | 3 | 4 => text.push(' '),
                5 => text.push('\n'),
                6 => text.push_str("/*c*/"),
                _ => text.push('\t'),
            }
        }
    }
    let mut fails = vec![];
    oracle_text(&text, &mut fails);
    common::judge(fails, &["C01:", "C02:", "C11:", "C12:", "C14:"]);
});
