// lex: ok
// parse: diag
// sema: skip

defcalgrammar "openpulse" defcalgrammar "openpulse";
defcalgrammar 3;
defcal x $0 -> int[8] -> int[8] {}
