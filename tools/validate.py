#!/usr/bin/env python3
import json, jsonschema, sys, os, glob
ROOT = os.path.dirname(os.path.dirname(os.path.abspath(__file__)))
m = json.load(open(os.path.join(ROOT, 'MANIFEST.json')))
jsonschema.validate(m, json.load(open('/root/.vp/MANIFEST.schema.json')))
es = json.load(open('/root/.vp/EVIDENCE.schema.json'))
for c in m['checks']:
    p = os.path.join(ROOT, c['evidence_file'])
    if os.path.exists(p):
        jsonschema.validate(json.load(open(p)), es)
    else:
        print('missing evidence', p)
print('valid: manifest +', len(m['checks']), 'checks')
