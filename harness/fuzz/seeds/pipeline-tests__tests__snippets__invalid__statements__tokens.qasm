// lex: diag
// parse: diag
// sema: skip

#;
3x;
x@x;
3.4.3;
3.4e3e3;
// Bad integer literals.
3__4;
3_4_;
0b123;
0B123;
0o789;
0O789;
0x12g;
0X12g;
12af;
