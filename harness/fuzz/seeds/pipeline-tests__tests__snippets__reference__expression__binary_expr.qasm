// lex: ok
// parse: ok
// sema: ok

int x = 0;
int y = 1;

2+2;
2**2;
x << y;
