#!/bin/bash
# Sensitivity self-test (not part of MANIFEST checks): apply each mutant patch to /repo, confirm
# that it compiles (and, with SUITE=1, that the repository's own suite still passes), run the
# quick tier of the property it targets and expect a VIOLATION; restore /repo afterwards.
# usage: ./selftest.sh [pattern]     results: mutants/RESULTS.txt
set -u
cd "$(dirname "$0")"
PAT="${1:-}"
OUT=mutants/RESULTS.txt
: > "$OUT.tmp"
if [ -n "$(git -C /repo status --porcelain)" ]; then echo "/repo is not clean"; exit 2; fi
for p in mutants/*${PAT}*.patch; do
  name=$(basename "$p" .patch); id=${name%%__*}
  if ! git -C /repo apply "$PWD/$p" 2>/dev/null; then echo "$name: PATCH-DOES-NOT-APPLY" | tee -a "$OUT.tmp"; continue; fi
  suite="-"
  if [ "${SUITE:-0}" = "1" ]; then
    if (cd /repo && cargo test --workspace --no-fail-fast --offline >/tmp/selftest_suite.log 2>&1); then suite="suite-passes"; else suite="SUITE-FAILS"; fi
  fi
  start=$(date +%s)
  ./check "$id" --tier quick > /tmp/selftest_check.log 2>&1; rc=$?
  dur=$(( $(date +%s) - start ))
  key=$(grep -m1 "key:" /tmp/selftest_check.log | cut -c1-140)
  case $rc in
    1) res="CAUGHT" ;;
    0) res="MISSED" ;;
    *) res="INCONCLUSIVE(rc=$rc) $(grep -m1 INCONCLUSIVE /tmp/selftest_check.log | cut -c1-100)" ;;
  esac
  echo "$name: $res [$suite, ${dur}s] $key" | tee -a "$OUT.tmp"
  git -C /repo checkout -- . ; rm -f /repo/crates/pipeline-tests/tests/snapshots/*.snap.new
done
mv "$OUT.tmp" "$OUT"
grep -c CAUGHT "$OUT"; grep -E "MISSED|INCONCLUSIVE|SUITE-FAILS|APPLY" "$OUT"
