//! Full-pipeline helpers (semantic analysis entry points).  Filled in with the model.

use crate::engine::*;

pub fn check_gating_source(_text: &str, _out: &mut Vec<Failure>) {}
pub fn run_gating(_ctx: &RunCtx) {}
