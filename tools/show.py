#!/usr/bin/env python3
"""dev helper: summarise replays/<ID>: show.py ID [max] [filter]"""
import json,glob,sys,re
pid=sys.argv[1]; mx=int(sys.argv[2]) if len(sys.argv)>2 else 30; flt=sys.argv[3] if len(sys.argv)>3 else ''
rows=[]
for f in glob.glob(f'/verif/replays/{pid}/*.json'):
    d=json.load(open(f))
    if flt and not re.search(flt,d['key']): continue
    inp=d.get('input',{})
    src=inp.get('source') or json.dumps(inp)
    rows.append((d['key'], src[:160].replace('\n','\\n'), str(d.get('expected'))[:200], str(d.get('actual'))[:200]))
rows.sort()
print(len(rows),'violations')
for k,s,e,a in rows[:mx]:
    print(k[:140]); print('   src:',s); print('   exp:',e); print('   got:',a)
