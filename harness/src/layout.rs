//! G-layout: render a token list with random trivia (DESIGN.md §4.5).

use crate::engine::Src;
use crate::model::{Tok, TC};

pub struct Laid {
    pub text: String,
    /// byte offset of every token start and end
    pub offsets: Vec<(usize, usize)>,
}

fn fuses(a: &Tok, b: &Tok) -> bool {
    let wordlike = |c: TC| matches!(c, TC::Word | TC::Num | TC::NumDot | TC::Line);
    match a.class {
        TC::Line => true,
        TC::Word | TC::Num | TC::NumDot => {
            if wordlike(b.class) {
                return true;
            }
            if b.class == TC::Punct && b.text.starts_with('.') {
                return true;
            }
            // `OPENQASM 3.0` must be followed by a blank or `;`
            if a.text.starts_with("OPENQASM ") && !(b.text == ";") {
                return true;
            }
            false
        }
        TC::Str => wordlike(b.class),
        TC::Punct => {
            let last = a.text.chars().last().unwrap_or(' ');
            let first = b.text.chars().next().unwrap_or(' ');
            match last {
                '/' => first == '/' || first == '*',
                '.' => first.is_ascii_digit(),
                '$' => wordlike(b.class),
                '@' => wordlike(b.class),
                // never let two operator characters form a composite the printer did not intend
                '-' | '+' | '*' | '<' | '>' | '=' | '!' | '&' | '|' | '^' | '%' | ':' => {
                    matches!(first, '-' | '+' | '*' | '<' | '>' | '=' | '&' | '|' | '.' | ':')
                }
                _ => false,
            }
        }
    }
}

const WS: &[&str] = &[" ", " ", " ", "  ", "\t", "\n", "\n", "\r\n", "\n\n", " \n  ", "\u{b}", "\u{c}", "\r", "\u{85}", "\u{200e}", "\u{200f}", "\u{2028}", "\u{2029}"];

fn comment(src: &mut Src) -> String {
    const BODIES: &[&str] = &["", " c ", "x;", " int y = 1; ", "\"", "'", "é中", " } ", "(", "OPENQASM 3;", "pragma p", "**", "+ -", "*", "***", " note *", " x ***", "* a ** b *", "\\", " see C:\\qasm\\lib\\", " continued \\", "\\ x", " \\\\"];
    let b = BODIES[src.below(BODIES.len())];
    match src.below(3) {
        0 => format!("//{b}\n"),
        1 => format!("/*{b}*/"),
        _ => format!("/* a /*{b}*/ b */"),
    }
}

#[derive(Clone, Copy, PartialEq, Eq, Debug)]
pub enum Style {
    /// single blanks where needed, nothing else
    Minimal,
    /// one blank between all tokens
    Spaced,
    /// random blanks, line breaks and comments
    Wild,
}

pub fn lay(src: &mut Src, toks: &[Tok], style: Style) -> Laid {
    let mut text = String::new();
    let mut offsets = Vec::with_capacity(toks.len());
    if style == Style::Wild && src.chance(1, 4) {
        text.push_str(WS[src.below(WS.len())]);
        if src.chance(1, 3) {
            text.push_str(&comment(src));
        }
    }
    for (i, t) in toks.iter().enumerate() {
        if i > 0 {
            let p = &toks[i - 1];
            let mut sep = String::new();
            if p.class == TC::Line {
                sep.push('\n');
            }
            if t.tight_before {
                // between a number and its unit: nothing or blanks only
                match style {
                    Style::Minimal => {}
                    Style::Spaced => sep.push(' '),
                    Style::Wild => sep.push_str(["", "", " ", "  ", "\t"][src.below(5)]),
                }
            } else {
                let must = sep.is_empty() && fuses(p, t);
                match style {
                    Style::Minimal => {
                        if must {
                            sep.push(' ');
                        }
                    }
                    Style::Spaced => {
                        if sep.is_empty() {
                            sep.push(' ');
                        }
                    }
                    Style::Wild => {
                        let n = if must { 1 + src.below(2) } else { src.below(3) };
                        for k in 0..n {
                            let ends_slash = p.text.ends_with('/') && sep.is_empty();
                            let need_ws_first = k == 0 && (must || ends_slash);
                            // a line token must not be followed by anything else on its line: sep
                            // already starts with '\n' in that case
                            if need_ws_first || src.chance(3, 4) {
                                sep.push_str(WS[src.below(WS.len())]);
                            } else {
                                sep.push_str(&comment(src));
                            }
                        }
                    }
                }
            }
            text.push_str(&sep);
        }
        let start = text.len();
        text.push_str(&t.text);
        offsets.push((start, text.len()));
    }
    if let Some(last) = toks.last() {
        if last.class == TC::Line {
            text.push('\n');
        } else if style == Style::Wild && src.chance(1, 2) {
            text.push_str(WS[src.below(WS.len())]);
            if src.chance(1, 4) {
                text.push_str(&comment(src));
            }
        }
    }
    Laid { text, offsets }
}
