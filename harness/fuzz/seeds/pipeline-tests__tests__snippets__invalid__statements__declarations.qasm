// lex: ok
// WARNING. SKIP PARSING. PARSER HANGS
// Bug in runner.rs. parsing will run even if tagged "skip"
// parse: skip
// sema: skip

// Not specifying the variable.
float;
uint[8];
qreg[4];
creg[4];
complex[float[32]];

// Incorrect designators.
int[8, 8] myvar;
uint[8, 8] myvar;
float[8, 8] myvar;
angle[8, 8] myvar;
bool[4] myvar;
bool[4, 4] myvar;
bit[4, 4] myvar;
creg[2] myvar;
creg[2, 2] myvar;
qreg[2] myvar;
qreg[2, 2] myvar;
complex[32] myvar;
complex[mytype] myvar;
complex[float[32], float[32]] myvar;
complex[qreg] myvar;
complex[creg] myvar;
complex[qreg[8]] myvar;
complex[creg[8]] myvar;

// Bad array specifiers.
array myvar;
array[8] myvar;
array[not_a_type, 4] myvar;
array[int[8], int[8], 2] myvar;

// Invalid identifiers.
int[8] int;
int[8] def;
int[8] 0;
int[8] input;

// Bad assignments.
int[8] myvar = end;
int[8] myvar =;
float[32] myvar_f = int[32] myvar_i = 2;
// array initialiser uses {}
array[uint[8], 4] myvar = [4, 5, 6, 7];
// can't use arithmetic on the entire initialiser
array[uint[8], 4] myvar = 2 * {1, 2, 3, 4};
// backed arrays can't use #dim
array[uint[8], #dim=2] myvar;
// can't have more than one type specification
array[int[8], int[8]] myvar;

// Incorrect orders.
myvar: int[8];
myvar int[8];
int myvar[8];
uint myvar[8];
float myvar[32];

// Compound assignments.
int[8] myvar1, myvar2;
int[8] myvari, float[32] myvarf;
int[8] myvari float[32] myvarf;
