// lex: diag
// parse: diag
// sema: skip

OPENQASM int;
OPENQASM 'hello, world';
OPENQASM 3 3;
OPENQASM 3.x;
include 3;
include include;
include def;
include "hello;
