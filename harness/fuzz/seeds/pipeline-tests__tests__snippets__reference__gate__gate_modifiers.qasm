// lex: ok
// parse: ok
// sema: ok

qubit q;
gate g q {}
ctrl(2) @ g q;
negctrl(3) @ g q;
pow(-1./2.) @ g q;
inv @ g q;
