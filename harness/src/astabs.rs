//! abs::ast_abs — walk `oq3_syntax::ast` through the public typed accessors that downstream
//! code uses and render the same canonical S-expressions as model::r_stmt (DESIGN.md §5.4).

use oq3_syntax::ast::{self, AstNode, HasArgList, HasName, HasTextNode};
use oq3_syntax::BlockOrStmt;

const MISSING: &str = "<missing>";

fn opt<T>(x: Option<T>, f: impl FnOnce(T) -> String) -> String {
    match x {
        Some(v) => f(v),
        None => MISSING.to_string(),
    }
}

pub fn a_ty(t: &ast::ScalarType) -> String {
    use ast::ScalarTypeKind::*;
    let name = match t.kind() {
        Angle => "angle",
        Bit => "bit",
        Bool => "bool",
        Complex => "complex",
        Duration => "duration",
        Float => "float",
        Int => "int",
        Stretch => "stretch",
        UInt => "uint",
        Qubit => "qubit",
        None => "<none>",
    };
    if name == "complex" {
        return match t.scalar_type() {
            Some(inner) => format!("(ty complex {})", a_ty(&inner)),
            Option::None => {
                if t.l_brack_token().is_some() {
                    "(ty complex <missing>)".to_string()
                } else {
                    "(ty complex)".to_string()
                }
            }
        };
    }
    match t.designator() {
        Some(d) => format!("(ty {name} (w {}))", opt(d.expr(), |e| a_expr(&e))),
        Option::None => format!("(ty {name})"),
    }
}

fn a_exprlist(l: &ast::ExpressionList) -> Vec<String> {
    l.exprs().map(|e| a_expr(&e)).collect()
}

fn a_index(ix: &ast::IndexOperator) -> String {
    match ix.index_kind() {
        Some(ast::IndexKind::SetExpression(s)) => format!("[set {}]", opt(s.expression_list(), |l| a_exprlist(&l).join(" "))),
        Some(ast::IndexKind::ExpressionList(l)) => format!("[{}]", a_exprlist(&l).join(" ")),
        None => format!("[{MISSING}]"),
    }
}

fn a_indexed_id(ii: &ast::IndexedIdentifier) -> String {
    format!(
        "(idx-id {} {})",
        opt(ii.identifier(), |i| i.string()),
        ii.index_operators().map(|ix| a_index(&ix)).collect::<Vec<_>>().join(" ")
    )
}

pub fn a_operand(o: &ast::GateOperand) -> String {
    match o {
        ast::GateOperand::Identifier(i) => format!("(id {})", i.string()),
        ast::GateOperand::HardwareQubit(h) => format!("(hw {})", h.string()),
        ast::GateOperand::IndexedIdentifier(ii) => a_indexed_id(ii),
    }
}

fn a_qubit_list(q: Option<ast::QubitList>) -> Vec<String> {
    // an absent list is an empty list (`barrier;`)
    match q {
        Some(q) => q.gate_operands().map(|o| a_operand(&o)).collect(),
        None => vec![],
    }
}

fn a_literal(l: &ast::Literal) -> String {
    use ast::LiteralKind::*;
    use oq3_syntax::AstToken;
    match l.kind() {
        IntNumber(t) => format!("(int {})", t.text()),
        FloatNumber(t) => format!("(float {})", t.text()),
        Bool(b) => format!("(bool {b})"),
        BitString(t) => format!("(bits {})", t.text()),
        String(t) => format!("(str {})", t.text()),
        Byte(t) => format!("(byte {})", t.text()),
        Char(t) => format!("(char {})", t.text()),
    }
}

fn a_range(r: &ast::RangeExpr) -> String {
    let (a, s, b) = r.start_step_stop();
    format!("(range {} {} {})", opt(a, |e| a_expr(&e)), s.map(|e| a_expr(&e)).unwrap_or("_".into()), opt(b, |e| a_expr(&e)))
}

fn a_args(al: Option<ast::ArgList>) -> String {
    match al {
        None => " _".to_string(),
        Some(al) => match al.expression_list() {
            Some(l) => a_exprlist(&l).iter().map(|x| format!(" {x}")).collect(),
            None => format!(" {MISSING}"),
        },
    }
}

fn a_mods(m: &ast::ModifiedGateCallExpr) -> String {
    m.modifiers()
        .map(|md| match md {
            ast::Modifier::InvModifier(_) => " inv".to_string(),
            ast::Modifier::PowModifier(p) => format!(" (pow {})", opt(p.paren_expr().and_then(|x| x.expr()), |e| a_expr(&e))),
            ast::Modifier::CtrlModifier(c) => format!(" (ctrl {})", c.paren_expr().map(|x| opt(x.expr(), |e| a_expr(&e))).unwrap_or("_".into())),
            ast::Modifier::NegCtrlModifier(c) => format!(" (negctrl {})", c.paren_expr().map(|x| opt(x.expr(), |e| a_expr(&e))).unwrap_or("_".into())),
        })
        .collect()
}

fn a_gate_call(mods: &str, g: &ast::GateCallExpr) -> String {
    format!(
        "(gate-call (mods{mods}) {} (args{}) (operands {}))",
        opt(g.identifier(), |i| i.string()),
        a_args(g.arg_list()),
        a_qubit_list(g.qubit_list()).join(" ")
    )
}

fn a_gphase(mods: &str, g: &ast::GPhaseCallExpr) -> String {
    format!("(gphase (mods{mods}) {} (operands))", opt(g.arg(), |e| a_expr(&e)))
}

pub fn a_expr(e: &ast::Expr) -> String {
    use ast::Expr::*;
    match e {
        ArrayExpr(a) => format!("(array-expr{})", a.exprs().map(|x| format!(" {}", a_expr(&x))).collect::<String>()),
        ArrayLiteral(a) => format!("(array-lit{})", opt(a.expression_list(), |l| a_exprlist(&l).iter().map(|x| format!(" {x}")).collect())),
        BinExpr(b) => format!(
            "(bin {} {} {})",
            b.op_kind().map(|o| o.to_string()).unwrap_or(MISSING.into()),
            opt(b.lhs(), |x| a_expr(&x)),
            opt(b.rhs(), |x| a_expr(&x))
        ),
        BlockExpr(b) => format!("(block {})", a_block(b)),
        BoxExpr(b) => format!("(box {})", opt(b.expr(), |x| a_expr(&x))),
        CallExpr(c) => format!(
            "(call {} (args{}))",
            match c.identifier() {
                Some(i) => i.string(),
                None => opt(c.expr(), |x| a_expr(&x)),
            },
            match c.arg_list() {
                Some(al) => match al.expression_list() {
                    Some(l) => a_exprlist(&l).iter().map(|x| format!(" {x}")).collect::<String>(),
                    None => format!(" {MISSING}"),
                },
                None => format!(" {MISSING}"),
            }
        ),
        CastExpression(c) => format!(
            "(cast {} {})",
            match (c.scalar_type(), c.array_type()) {
                (Some(t), _) => a_ty(&t),
                (None, Some(_)) => "(ty array)".to_string(),
                _ => MISSING.to_string(),
            },
            opt(c.expr(), |x| a_expr(&x))
        ),
        GateCallExpr(g) => a_gate_call("", g),
        GPhaseCallExpr(g) => a_gphase("", g),
        HardwareQubit(h) => format!("(hw {})", h.string()),
        Identifier(i) => format!("(id {})", i.string()),
        IndexExpr(ix) => format!("(idx {} {})", opt(ix.expr(), |x| a_expr(&x)), opt(ix.index_operator(), |o| a_index(&o))),
        IndexedIdentifier(ii) => a_indexed_id(ii),
        Literal(l) => a_literal(l),
        TimingLiteral(t) => format!("(timing {} {})", opt(t.literal(), |l| a_literal(&l)), opt(t.identifier(), |i| i.string())),
        MeasureExpression(m) => format!("(measure {})", opt(m.gate_operand(), |o| a_operand(&o))),
        ModifiedGateCallExpr(m) => {
            let mods = a_mods(m);
            if let Some(g) = m.gate_call_expr() {
                a_gate_call(&mods, &g)
            } else if let Some(g) = m.g_phase_call_expr() {
                a_gphase(&mods, &g)
            } else {
                format!("(modified{mods} {MISSING})")
            }
        }
        ParenExpr(p) => opt(p.expr(), |x| a_expr(&x)),
        PrefixExpr(p) => format!(
            "(un {} {})",
            match p.op_kind() {
                Some(ast::UnaryOp::Neg) => "-",
                Some(ast::UnaryOp::LogicNot) => "!",
                Some(ast::UnaryOp::Not) => "~",
                None => MISSING,
            },
            opt(p.expr(), |x| a_expr(&x))
        ),
        RangeExpr(r) => a_range(r),
        ReturnExpr(r) => format!("(return {})", r.expr().map(|x| a_expr(&x)).unwrap_or("_".into())),
        DimExpr(_) => "(dim)".to_string(),
    }
}

pub fn a_block(b: &ast::BlockExpr) -> String {
    format!("{{{}}}", b.statements().map(|s| format!(" {}", a_stmt(&s))).collect::<String>())
}

fn a_body(b: BlockOrStmt) -> String {
    match b {
        BlockOrStmt::BlockExpr(b) => format!("(block {})", a_block(&b)),
        BlockOrStmt::Stmt(s) => format!("(single {})", a_stmt(&s)),
    }
}

fn name_of<T: HasName>(n: &T) -> String {
    opt(n.name(), |x| x.string())
}

pub fn a_stmt(s: &ast::Stmt) -> String {
    use ast::Stmt::*;
    match s {
        AliasDeclarationStatement(a) => format!("(alias {} {})", name_of(a), opt(a.expr(), |e| a_expr(&e))),
        AnnotationStatement(a) => format!("(annotation {})", a.annotation_text()),
        AssignmentStmt(a) => {
            let lhs = if let Some(i) = a.identifier() {
                format!("(id {})", i.string())
            } else if let Some(ii) = a.indexed_identifier() {
                a_indexed_id(&ii)
            } else {
                MISSING.to_string()
            };
            format!("(assign {lhs} {})", opt(a.rhs(), |e| a_expr(&e)))
        }
        Barrier(b) => format!("(barrier {})", a_qubit_list(b.qubit_list()).join(" ")),
        BreakStmt(_) => "(break)".into(),
        Cal(_) => "(cal)".into(),
        ClassicalDeclarationStatement(d) => {
            if let Some(at) = d.array_type() {
                // dimensions are not judged: array types are a stub in this front end (no
                // ExpressionList node is built for them; the analyser reports NotImplemented)
                format!(
                    "(array-decl {} {} {})",
                    opt(at.scalar_type(), |t| a_ty(&t)),
                    name_of(d),
                    d.expr().map(|e| a_expr(&e)).unwrap_or("_".into())
                )
            } else {
                format!(
                    "(decl{} {} {} {})",
                    if d.const_token().is_some() { " const" } else { "" },
                    opt(d.scalar_type(), |t| a_ty(&t)),
                    name_of(d),
                    d.expr().map(|e| a_expr(&e)).unwrap_or("_".into())
                )
            }
        }
        ContinueStmt(_) => "(continue)".into(),
        Def(d) => format!(
            "(def {} (params{}) (ret {}) {})",
            name_of(d),
            opt(d.typed_param_list(), |l| l
                .typed_params()
                .map(|p| {
                    let t = match p.param_type() {
                        Some(ast::ParamType::ScalarType(t)) => a_ty(&t),
                        Some(ast::ParamType::ArrayRefType(_)) => "(ty array-ref)".to_string(),
                        None => MISSING.to_string(),
                    };
                    format!(" ({t} {})", name_of(&p))
                })
                .collect::<String>()),
            d.return_signature().map(|r| opt(r.scalar_type(), |t| a_ty(&t))).unwrap_or("_".into()),
            opt(d.body(), |b| a_block(&b))
        ),
        DefCal(_) => "(defcal)".into(),
        DefCalGrammar(d) => format!("(defcalgrammar {})", opt(d.file().and_then(|f| f.to_string()), |s| s)),
        DelayStmt(d) => format!(
            "(delay {} {})",
            opt(d.designator().and_then(|x| x.expr()), |e| a_expr(&e)),
            a_qubit_list(d.qubit_list()).join(" ")
        ),
        EndStmt(_) => "(end)".into(),
        ExprStmt(e) => match e.expr() {
            Some(ast::Expr::GateCallExpr(g)) => a_gate_call("", &g),
            Some(ast::Expr::ModifiedGateCallExpr(m)) => a_expr(&ast::Expr::ModifiedGateCallExpr(m)),
            Some(ast::Expr::GPhaseCallExpr(g)) => a_gphase("", &g),
            Some(x) => format!("(expr-stmt {})", a_expr(&x)),
            None => format!("(expr-stmt {MISSING})"),
        },
        ExternStmt(e) => format!("(extern {})", name_of(e)),
        ForStmt(f) => format!(
            "(for {} {} {} {})",
            opt(f.scalar_type(), |t| a_ty(&t)),
            opt(f.loop_var(), |n| n.string()),
            opt(f.for_iterable(), |it| {
                if let Some(s) = it.set_expression() {
                    format!("(set {})", opt(s.expression_list(), |l| a_exprlist(&l).join(" ")))
                } else if let Some(r) = it.range_expr() {
                    a_range(&r)
                } else if let Some(e) = it.for_iterable_expr() {
                    format!("(iter {})", a_expr(&e))
                } else {
                    MISSING.to_string()
                }
            }),
            a_body(f.block_or_stmt())
        ),
        Gate(g) => format!(
            "(gate {} (params{}) (qubits {}) {})",
            name_of(g),
            match g.angle_params() {
                None => " _".to_string(),
                Some(ps) => ps.params().map(|p| format!(" {}", p.string())).collect::<String>(),
            },
            opt(g.qubit_params(), |ps| ps.params().map(|p| p.string()).collect::<Vec<_>>().join(" ")),
            opt(g.body(), |b| a_block(&b))
        ),
        IfStmt(i) => format!(
            "(if {} {} {})",
            opt(i.condition(), |e| a_expr(&e)),
            a_body(i.true_body_block_or_stmt()),
            i.false_body_block_or_stmt().map(a_body).unwrap_or("_".into())
        ),
        Include(i) => format!("(include {})", opt(i.file().and_then(|f| f.to_string()), |s| s)),
        IODeclarationStatement(d) if d.array_type().is_some() => format!(
            "(io-array-decl {} {} {})",
            if d.input_token().is_some() { "input" } else { "output" },
            opt(d.array_type().and_then(|at| at.scalar_type()), |t| a_ty(&t)),
            name_of(d)
        ),
        IODeclarationStatement(d) => format!(
            "(io-decl {} {} {})",
            if d.input_token().is_some() { "input" } else { "output" },
            opt(d.scalar_type(), |t| a_ty(&t)),
            name_of(d)
        ),
        LetStmt(l) => format!("(let-stmt {} {})", name_of(l), opt(l.expr(), |e| a_expr(&e))),
        Measure(_) => "(measure-stmt)".into(),
        // name and size are not judged: old-style declarations are a stub (NotImplemented)
        OldStyleDeclarationStatement(o) => opt(o.old_typed_param(), |p| {
            format!("(old-decl {})", if p.qreg_token().is_some() { "qreg" } else { "creg" })
        }),
        PragmaStatement(p) => format!("(pragma-text {})", p.pragma_text()),
        QuantumDeclarationStatement(q) => {
            if let Some(h) = q.hardware_qubit() {
                format!("(qubit-decl-hw {})", h.string())
            } else {
                format!(
                    "(qubit-decl {} {})",
                    q.qubit_type().and_then(|t| t.designator()).map(|d| opt(d.expr(), |e| a_expr(&e))).unwrap_or("_".into()),
                    name_of(q)
                )
            }
        }
        Reset(r) => format!("(reset {})", opt(r.gate_operand(), |o| a_operand(&o))),
        SwitchCaseStmt(sw) => format!(
            "(switch {}{} (default {}))",
            opt(sw.control(), |e| a_expr(&e)),
            sw.case_exprs()
                .map(|c| format!(
                    " (case ({}) {})",
                    opt(c.expression_list(), |l| a_exprlist(&l).join(" ")),
                    opt(c.block_expr(), |b| a_block(&b))
                ))
                .collect::<String>(),
            sw.default_block().map(|b| a_block(&b)).unwrap_or("_".into())
        ),
        VersionString(_) => "(version)".into(),
        WhileStmt(w) => format!("(while {} {})", opt(w.condition(), |e| a_expr(&e)), a_body(w.block_or_stmt())),
    }
}

pub fn a_program_lines(f: &ast::SourceFile) -> Vec<String> {
    f.statements().map(|s| a_stmt(&s)).collect()
}

/// Statement kind name, for keys.
pub fn stmt_kind_name(s: &ast::Stmt) -> String {
    format!("{:?}", s.syntax().kind())
}

/// Redundant accessors of the typed AST must agree with each other on a diagnostic-free tree:
/// the block/single-statement views of if/while/for bodies, `loop_body`, the operand and operator
/// views of binary and prefix expressions, the base of an index expression, the gate-call name.
/// Returns (which, description) for every disagreement.
pub fn accessor_disagreements(root: &oq3_syntax::SyntaxNode) -> Vec<(String, String)> {
    use ast::HasLoopBody;
    let mut out: Vec<(String, String)> = vec![];
    let same = |a: Option<&oq3_syntax::SyntaxNode>, b: Option<&oq3_syntax::SyntaxNode>| match (a, b) {
        (Some(x), Some(y)) => x.text_range() == y.text_range() && x.kind() == y.kind(),
        (None, None) => true,
        _ => false,
    };
    for node in root.descendants() {
        let text = || node.text().to_string().chars().take(80).collect::<String>();
        if let Some(i) = ast::IfStmt::cast(node.clone()) {
            if i.condition().is_none() {
                continue;
            }
            let (tb, ts) = match i.true_body_block_or_stmt() {
                BlockOrStmt::BlockExpr(b) => (Some(b.syntax().clone()), None),
                BlockOrStmt::Stmt(s) => (None, Some(s.syntax().clone())),
            };
            if !same(i.then_branch_block().as_ref().map(|b| b.syntax()), tb.as_ref()) {
                out.push(("if:then_branch_block".into(), text()));
            }
            if !same(i.then_branch_stmt().as_ref().map(|b| b.syntax()), ts.as_ref()) {
                out.push(("if:then_branch_stmt".into(), text()));
            }
            let (eb, es) = match i.false_body_block_or_stmt() {
                Some(BlockOrStmt::BlockExpr(b)) => (Some(b.syntax().clone()), None),
                Some(BlockOrStmt::Stmt(s)) => (None, Some(s.syntax().clone())),
                None => (None, None),
            };
            if !same(i.else_branch_block().as_ref().map(|b| b.syntax()), eb.as_ref()) {
                out.push(("if:else_branch_block".into(), text()));
            }
            if !same(i.else_branch_stmt().as_ref().map(|b| b.syntax()), es.as_ref()) {
                out.push(("if:else_branch_stmt".into(), text()));
            }
            if i.else_token().is_some() != i.false_body_block_or_stmt().is_some() {
                out.push(("if:else-token-vs-false-body".into(), text()));
            }
        } else if let Some(w) = ast::WhileStmt::cast(node.clone()) {
            let (b, s) = match w.block_or_stmt() {
                BlockOrStmt::BlockExpr(b) => (Some(b.syntax().clone()), None),
                BlockOrStmt::Stmt(s) => (None, Some(s.syntax().clone())),
            };
            if !same(w.body().as_ref().map(|b| b.syntax()), b.as_ref()) {
                out.push(("while:body".into(), text()));
            }
            if !same(w.stmt().as_ref().map(|b| b.syntax()), s.as_ref()) {
                out.push(("while:stmt".into(), text()));
            }
            if b.is_some() && !same(w.loop_body().as_ref().map(|b| b.syntax()), b.as_ref()) {
                out.push(("while:loop_body".into(), text()));
            }
        } else if let Some(f) = ast::ForStmt::cast(node.clone()) {
            if let BlockOrStmt::BlockExpr(b) = f.block_or_stmt() {
                if !same(f.loop_body().as_ref().map(|x| x.syntax()), Some(b.syntax())) {
                    out.push(("for:loop_body".into(), text()));
                }
                if !same(f.body().as_ref().map(|x| x.syntax()), Some(b.syntax())) {
                    out.push(("for:body".into(), text()));
                }
            }
        } else if let Some(b) = ast::BinExpr::cast(node.clone()) {
            let (l, r) = b.sub_exprs();
            if !same(l.as_ref().map(|x| x.syntax()), b.lhs().as_ref().map(|x| x.syntax())) {
                out.push(("bin:sub_exprs.0-vs-lhs".into(), text()));
            }
            if !same(r.as_ref().map(|x| x.syntax()), b.rhs().as_ref().map(|x| x.syntax())) {
                out.push(("bin:sub_exprs.1-vs-rhs".into(), text()));
            }
            match (b.op_token(), b.op_kind(), b.op_details()) {
                (Some(t), Some(k), Some((t2, k2))) => {
                    if t.text() != k.to_string() || t2.text_range() != t.text_range() || k2 != k {
                        out.push(("bin:op_token-vs-op_kind".into(), format!("{} vs {k}: {}", t.text(), text())));
                    }
                    // the operator token sits between the operands
                    if let (Some(l), Some(r)) = (b.lhs(), b.rhs()) {
                        if !(l.syntax().text_range().end() <= t.text_range().start() && t.text_range().end() <= r.syntax().text_range().start()) {
                            out.push(("bin:operator-not-between-operands".into(), text()));
                        }
                    }
                }
                (None, None, None) => {}
                _ => out.push(("bin:op-accessors-partial".into(), text())),
            }
        } else if let Some(p) = ast::PrefixExpr::cast(node.clone()) {
            match (p.op_token(), p.op_kind()) {
                (Some(t), Some(k)) => {
                    let want = match k {
                        ast::UnaryOp::Neg => "-",
                        ast::UnaryOp::LogicNot => "!",
                        ast::UnaryOp::Not => "~",
                    };
                    if t.text() != want {
                        out.push(("prefix:op_token-vs-op_kind".into(), text()));
                    }
                    if let Some(e) = p.expr() {
                        if t.text_range().end() > e.syntax().text_range().start() {
                            out.push(("prefix:operator-not-before-operand".into(), text()));
                        }
                    }
                }
                (None, None) => {}
                _ => out.push(("prefix:op-accessors-partial".into(), text())),
            }
        } else if let Some(ix) = ast::IndexExpr::cast(node.clone()) {
            if !same(ix.base().as_ref().map(|x| x.syntax()), ix.expr().as_ref().map(|x| x.syntax())) {
                out.push(("index:base-vs-expr".into(), text()));
            }
        } else if let Some(g) = ast::GateCallExpr::cast(node.clone()) {
            if let (Some(n), Some(i)) = (g.name(), g.identifier()) {
                if n.string() != i.string() {
                    out.push(("gate-call:name-vs-identifier".into(), text()));
                }
            }
        }
    }
    out
}
