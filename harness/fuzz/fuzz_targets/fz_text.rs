#![no_main]
// bytes -> lossy UTF-8 -> text oracles: C14, C01, C02, C12 (syntax side), lexical gate of C11
mod common;
use libfuzzer_sys::fuzz_target;

fuzz_target!(|data: &[u8]| {
    common::init();
    let (_, fails) = oq3_verif_harness::fuzzrun::oracle("fz_text", data);
    common::judge(fails, &["C01:", "C02:", "C11:", "C12:", "C14:"]);
});
