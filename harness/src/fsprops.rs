//! C18 (includes) and the include part of C11.  Filled in later.

use crate::engine::*;

pub fn run_c11_includes(_ctx: &RunCtx) {}

pub fn run_c12_includes(_ctx: &RunCtx) {}
