// lex: ok
// parse: ok
// sema: skip

def test_array_1(mutable array[uint[16], 4, 2] a) {}
def test_array_2(readonly array[uint[16], 4, 2] a) {}
def test_array_3(mutable array[uint[16], #dim=2] a) {}
def test_array_4(readonly array[uint[16], #dim=2*n] a) {}
def test_array_5(readonly array[int[8], #dim=1] a, mutable array[complex[float[64]], #dim=3] b, readonly array[complex[float[64]], 2, 2] c) -> int[8] {}
