//! Library part of the verification harness (shared with the fuzz targets).
#![allow(dead_code)]

pub mod c11;
pub mod c19;
pub mod c20;
pub mod astabs;
pub mod engine;
pub mod layout;
pub mod model;
pub mod modelgen;
pub mod semcheck;
pub mod semforms;
pub mod semgen;
pub mod semprops;
pub mod fsprops;
pub mod fuzzrun;
pub mod synprops;
pub mod lexgen;
pub mod lexprops;
pub mod pipeline;
pub mod textgen;
pub mod textprops;
pub mod typeprops;
