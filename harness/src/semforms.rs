//! Fixed small model programs covering each scoping / usage rule in both directions and the
//! structural roles; evaluated in every tier through the joint walk (deterministic).

use crate::model::*;

fn id(n: &str) -> Expr {
    Expr::Ident(n.into())
}
fn int(n: u32) -> Expr {
    Expr::Int(n.to_string())
}
fn bx(e: Expr) -> Box<Expr> {
    Box::new(e)
}
fn decl(t: Ty, n: &str, init: Option<Expr>) -> Stmt {
    Stmt::ClassicalDecl { konst: false, ty: t, name: n.into(), init }
}
fn cdecl(t: Ty, n: &str, init: Expr) -> Stmt {
    Stmt::ClassicalDecl { konst: true, ty: t, name: n.into(), init: Some(init) }
}
fn asg(n: &str, e: Expr) -> Stmt {
    Stmt::Assign { target: LValue::Id(n.into()), op: AssignOp::Assign, value: e }
}
fn qd(n: &str) -> Stmt {
    Stmt::QubitDecl { size: None, name: n.into() }
}
fn qr(n: &str, k: u32) -> Stmt {
    Stmt::QubitDecl { size: Some(int(k)), name: n.into() }
}
fn call(g: &str, args: Option<Vec<Expr>>, ops: Vec<Operand>) -> Stmt {
    Stmt::GateCall { mods: vec![], name: g.into(), args, operands: ops }
}
fn o(n: &str) -> Operand {
    Operand::Id(n.into())
}
fn oi(n: &str, k: u32) -> Operand {
    Operand::Indexed(n.into(), vec![Index::List(vec![IndexItem::Expr(int(k))])])
}
fn blk(v: Vec<Stmt>) -> Body {
    Body::Block(v)
}
fn sgl(s: Stmt) -> Body {
    Body::Single(Box::new(s))
}
fn tru() -> Expr {
    Expr::Bool(true)
}
fn inc() -> Stmt {
    Stmt::Include("stdgates.inc".into())
}
fn i32t() -> Ty {
    Ty::Int(Some(bx(int(32))))
}

pub fn fixed_programs() -> Vec<(String, Vec<Stmt>)> {
    let u3 = || Some(vec![int(0), int(0), int(0)]);
    let mut v: Vec<(&str, Vec<Stmt>)> = vec![
        ("shadowing", vec![decl(Ty::Int(None), "a", Some(int(1))), Stmt::If { cond: tru(), then: blk(vec![decl(Ty::Float(None), "a", Some(Expr::Float("2.0".into()))), asg("a", Expr::Float("3.0".into()))]), els: None }, asg("a", Expr::Cast(Ty::Int(None), bx(int(4))))]),
        ("use-after-scope-exit", vec![Stmt::If { cond: tru(), then: blk(vec![decl(Ty::Int(None), "b", Some(int(1)))]), els: None }, asg("b", Expr::Cast(Ty::Int(None), bx(int(2))))]),
        ("duplicate-same-scope", vec![decl(Ty::Int(None), "a", None), decl(Ty::Float(None), "a", None), asg("a", Expr::Cast(Ty::Int(None), bx(int(2))))]),
        ("use-before-declaration", vec![asg("a", int(1)), decl(Ty::Int(None), "a", None)]),
        ("for-variable-scope", vec![Stmt::For { ty: Ty::Int(None), var: "i".into(), iter: ForIter::Range(int(0), None, int(3)), body: blk(vec![decl(Ty::Int(None), "t", Some(id("i")))]) }, asg("i", int(1))]),
        ("for-variable-collision", vec![decl(Ty::Int(None), "i", None), Stmt::For { ty: Ty::Int(None), var: "i".into(), iter: ForIter::Set(vec![int(1), int(2)]), body: blk(vec![decl(Ty::Int(None), "i", None)]) }]),
        ("gate-duplicate-param", vec![Stmt::Gate { name: "g".into(), params: Some(vec!["t".into(), "t".into()]), qubits: vec!["q".into()], body: vec![] }]),
        ("gate-duplicate-qubit", vec![Stmt::Gate { name: "g".into(), params: None, qubits: vec!["q".into(), "q".into()], body: vec![] }]),
        ("gate-param-qubit-collision", vec![Stmt::Gate { name: "g".into(), params: Some(vec!["a".into()]), qubits: vec!["a".into()], body: vec![] }]),
        ("gate-body-and-use", vec![Stmt::Gate { name: "g".into(), params: Some(vec!["t".into()]), qubits: vec!["q".into()], body: vec![call("U", Some(vec![id("t"), int(0), int(0)]), vec![o("q")])] }, qd("r"), call("g", Some(vec![Expr::Float("0.5".into())]), vec![o("r")])]),
        ("gate-params-not-visible-outside", vec![Stmt::Gate { name: "g".into(), params: Some(vec!["t".into()]), qubits: vec!["q".into()], body: vec![] }, decl(Ty::Float(None), "x", Some(id("t"))), Stmt::Reset(o("q"))]),
        ("builtin-gate-arity", vec![qd("q"), call("U", Some(vec![int(1), int(2)]), vec![o("q")]), call("U", u3(), vec![o("q"), o("q")]), call("U", u3(), vec![o("q")]), call("U", None, vec![o("q")])]),
        ("stdgates-arity", vec![inc(), qd("q"), qd("r"), call("h", None, vec![o("q")]), call("cx", None, vec![o("q")]), call("cx", None, vec![o("q"), o("r")]), call("rz", None, vec![o("q")]), call("rz", Some(vec![int(1)]), vec![o("q")]), call("h", Some(vec![int(1)]), vec![o("q")]), call("ccx", None, vec![o("q"), o("r")]), call("cu", Some(vec![int(1), int(2), int(3), int(4)]), vec![o("q"), o("r")])]),
        ("empty-parameter-list", vec![inc(), qd("q"), qd("r"), call("h", Some(vec![]), vec![o("q")]), call("rz", Some(vec![]), vec![o("q")]), call("U", Some(vec![]), vec![o("q")]), call("cu", Some(vec![]), vec![o("q"), o("r")]), Stmt::Gate { name: "g2".into(), params: Some(vec!["a".into(), "b".into()]), qubits: vec!["x".into()], body: vec![] }, call("g2", Some(vec![]), vec![o("q")]), Stmt::GateCall { mods: vec![Modifier::Inv], name: "rz".into(), args: Some(vec![]), operands: vec![o("q")] }, Stmt::GateCall { mods: vec![Modifier::Pow(int(2))], name: "x".into(), args: Some(vec![]), operands: vec![o("q")] }]),
        ("stdgates-not-included", vec![qd("q"), call("h", None, vec![o("q")])]),
        ("double-include", vec![inc(), inc(), qd("q"), call("h", None, vec![o("q")])]),
        ("user-gate-then-include", vec![Stmt::Gate { name: "h".into(), params: Some(vec!["t".into()]), qubits: vec!["a".into()], body: vec![] }, inc(), qd("r"), call("h", Some(vec![Expr::Float("0.5".into())]), vec![o("r")]), call("x", None, vec![o("r")])]),
        ("user-variable-then-include", vec![decl(Ty::Int(None), "x", Some(int(1))), decl(Ty::Int(None), "cx", None), inc(), asg("x", Expr::Cast(Ty::Int(None), bx(int(2)))), decl(Ty::Int(None), "y", Some(id("cx")))]),
        ("double-include-uses", vec![inc(), qd("q"), call("h", None, vec![o("q")]), inc(), call("h", None, vec![o("q")]), call("cx", None, vec![o("q"), o("q")])]),
        ("inv-pow-arity", vec![inc(), qd("q"), qd("r"), Stmt::GateCall { mods: vec![Modifier::Inv], name: "h".into(), args: None, operands: vec![o("q"), o("r")] }, Stmt::GateCall { mods: vec![Modifier::Pow(int(2)), Modifier::Inv], name: "rz".into(), args: None, operands: vec![o("q")] }, Stmt::GateCall { mods: vec![Modifier::Inv, Modifier::Pow(int(3))], name: "cx".into(), args: None, operands: vec![o("q"), o("r")] }]),
        ("modifier-order", vec![inc(), qr("q", 4), Stmt::GateCall { mods: vec![Modifier::Inv, Modifier::Pow(int(2)), Modifier::Ctrl(None), Modifier::NegCtrl(Some(int(2)))], name: "x".into(), args: None, operands: vec![oi("q", 0), oi("q", 1), oi("q", 2), oi("q", 3)] }]),
        ("non-gate-callee", vec![decl(Ty::Int(None), "a", None), qd("q"), call("a", None, vec![o("q")]), call("q", None, vec![o("q")])]),
        ("classical-operands", vec![decl(Ty::Int(None), "a", None), decl(Ty::Bit(Some(bx(int(2)))), "c", None), call("U", u3(), vec![o("a")]), Stmt::Reset(o("a")), Stmt::MeasureStmt(o("a")), Stmt::Barrier(vec![o("a")]), call("U", u3(), vec![oi("c", 0)])]),
        ("quantum-operands-ok", vec![qd("q"), qr("r", 2), call("U", u3(), vec![o("q")]), call("U", u3(), vec![oi("r", 1)]), call("U", u3(), vec![Operand::Hw("$3".into())]), Stmt::Reset(o("r")), Stmt::MeasureStmt(oi("r", 0)), Stmt::Barrier(vec![o("q"), o("r"), Operand::Hw("$1".into())])]),
        ("hardware-qubit-in-binary-op", vec![decl(Ty::Int(None), "a", None), Stmt::ExprStmt(Expr::Bin(BinOp::Add, bx(Expr::Hw("$0".into())), bx(id("a")))), Stmt::ExprStmt(Expr::Bin(BinOp::Mul, bx(id("a")), bx(Expr::Hw("$1".into())))), Stmt::If { cond: Expr::Bin(BinOp::Eq, bx(Expr::Hw("$0".into())), bx(int(1))), then: blk(vec![]), els: None }, Stmt::ExprStmt(Expr::Bin(BinOp::Add, bx(Expr::Hw("$0".into())), bx(Expr::Hw("$1".into())))), Stmt::ExprStmt(Expr::Bin(BinOp::Mul, bx(Expr::Hw("$3".into())), bx(Expr::Hw("$3".into())))), Stmt::If { cond: Expr::Bin(BinOp::Neq, bx(Expr::Hw("$0".into())), bx(Expr::Hw("$1".into()))), then: blk(vec![]), els: None }]),
        ("quantum-in-binary-op", vec![qd("q"), qr("r", 2), decl(Ty::Int(None), "a", None), Stmt::ExprStmt(Expr::Bin(BinOp::Add, bx(id("q")), bx(id("a")))), Stmt::ExprStmt(Expr::Bin(BinOp::Mul, bx(id("a")), bx(id("r")))), Stmt::If { cond: Expr::Bin(BinOp::Eq, bx(id("q")), bx(id("r"))), then: blk(vec![]), els: None }, Stmt::ExprStmt(Expr::Bin(BinOp::Sub, bx(id("a")), bx(id("a"))))]),
        ("def-argument-count", vec![Stmt::Def { name: "f".into(), params: vec![(ParamTy::Scalar(Ty::Int(None)), "p".into())], ret: Some(Ty::Int(None)), body: vec![Stmt::Return(Some(id("p")))] }, decl(Ty::Int(None), "y", Some(Expr::Call("f".into(), vec![]))), decl(Ty::Int(None), "z", Some(Expr::Call("f".into(), vec![int(1), int(2)]))), decl(Ty::Int(None), "w", Some(Expr::Call("f".into(), vec![int(1)])))]),
        ("def-qubit-param", vec![Stmt::Def { name: "m".into(), params: vec![(ParamTy::Qubit(None), "q".into()), (ParamTy::Scalar(i32t()), "k".into())], ret: Some(Ty::Bit(None)), body: vec![call("U", u3(), vec![o("q")]), Stmt::Return(Some(Expr::Measure(o("q"))))] }, qd("r"), decl(Ty::Bit(None), "b", Some(Expr::Call("m".into(), vec![id("r"), int(1)])))]),
        ("def-params-not-visible-outside", vec![Stmt::Def { name: "f".into(), params: vec![(ParamTy::Scalar(Ty::Int(None)), "p".into())], ret: None, body: vec![decl(Ty::Int(None), "loc", Some(id("p")))] }, asg("p", int(1)), asg("loc", int(1))]),
        ("const-mutation", vec![cdecl(Ty::Int(None), "n", int(1)), decl(Ty::Int(None), "v", None), asg("n", Expr::Cast(Ty::Int(None), bx(int(2)))), asg("v", Expr::Cast(Ty::Int(None), bx(int(2)))), asg("pi", Expr::Float("3.0".into()))]),
        ("qubit-below-global", vec![Stmt::If { cond: tru(), then: blk(vec![qd("q")]), els: Some(blk(vec![qr("r", 2)])) }, Stmt::While { cond: tru(), body: blk(vec![qd("s")]) }, qd("t")]),
        ("gate-def-below-global", vec![Stmt::If { cond: tru(), then: blk(vec![Stmt::Gate { name: "g".into(), params: None, qubits: vec!["a".into()], body: vec![] }, Stmt::Def { name: "f".into(), params: vec![], ret: None, body: vec![] }]), els: None }, Stmt::Def { name: "outer".into(), params: vec![], ret: None, body: vec![Stmt::Gate { name: "g2".into(), params: None, qubits: vec!["a".into()], body: vec![] }, qd("inner")] }]),
        ("return-at-global", vec![Stmt::Return(None), Stmt::Return(Some(int(1))), Stmt::Def { name: "f".into(), params: vec![], ret: Some(Ty::Int(None)), body: vec![Stmt::If { cond: tru(), then: blk(vec![Stmt::Return(Some(int(1)))]), els: None }, Stmt::Return(Some(int(2)))] }]),
        ("delay-designator", vec![qd("q"), decl(Ty::Duration, "d", Some(Expr::Timing("5".into(), false, "ns".into(), false))), decl(Ty::Int(None), "k", None), Stmt::Delay(int(5), vec![o("q")]), Stmt::Delay(Expr::Timing("5".into(), false, "ns".into(), false), vec![o("q")]), Stmt::Delay(id("d"), vec![o("q")]), Stmt::Delay(id("k"), vec![o("q")]),
            decl(Ty::Bit(Some(bx(int(2)))), "c", None), qr("r", 2),
            Stmt::Delay(Expr::IndexedId("c".into(), vec![Index::List(vec![IndexItem::Expr(int(0))])]), vec![o("q")]),
            Stmt::Delay(Expr::IndexedId("r".into(), vec![Index::List(vec![IndexItem::Expr(int(1))])]), vec![o("q")]),
            Stmt::Delay(Expr::Bin(BinOp::Eq, bx(id("k")), bx(int(1))), vec![o("q")]),
            Stmt::Delay(Expr::Cast(Ty::Int(None), bx(id("k"))), vec![o("q")]),
            Stmt::If { cond: tru(), then: blk(vec![Stmt::Delay(Expr::IndexedId("c".into(), vec![Index::List(vec![IndexItem::Expr(int(1))])]), vec![o("q")])]), els: None }]),
        ("switch-scopes", vec![decl(Ty::Int(None), "s", Some(int(1))), Stmt::Switch { control: id("s"), cases: vec![(vec![int(1), int(2)], vec![decl(Ty::Int(None), "a", None)]), (vec![int(3)], vec![decl(Ty::Float(None), "a", None), asg("a", Expr::Float("1.0".into()))])], default: Some(vec![decl(Ty::Bool, "a", None)]) }, asg("a", int(1))]),
        ("else-scope-separate", vec![Stmt::If { cond: tru(), then: blk(vec![decl(Ty::Int(None), "a", None)]), els: Some(blk(vec![decl(Ty::Float(None), "a", None), asg("a", Expr::Float("1.0".into()))])) }]),
        ("if-else-single-statements", vec![decl(Ty::Int(None), "x", None), decl(Ty::Int(None), "y", None), Stmt::If { cond: tru(), then: sgl(asg("x", Expr::Cast(Ty::Int(None), bx(int(1))))), els: Some(sgl(asg("y", Expr::Cast(Ty::Int(None), bx(int(2)))))) }, Stmt::If { cond: tru(), then: sgl(asg("x", Expr::Cast(Ty::Int(None), bx(int(3))))), els: Some(blk(vec![asg("y", Expr::Cast(Ty::Int(None), bx(int(4))))])) }, Stmt::If { cond: tru(), then: blk(vec![asg("x", Expr::Cast(Ty::Int(None), bx(int(5))))]), els: Some(sgl(asg("y", Expr::Cast(Ty::Int(None), bx(int(6)))))) }]),
        ("else-if-chain", vec![decl(Ty::Int(None), "x", None), Stmt::If { cond: Expr::Bin(BinOp::Eq, bx(id("x")), bx(int(1))), then: blk(vec![asg("x", Expr::Cast(Ty::Int(None), bx(int(1))))]), els: Some(sgl(Stmt::If { cond: Expr::Bin(BinOp::Neq, bx(id("x")), bx(int(2))), then: blk(vec![asg("x", Expr::Cast(Ty::Int(None), bx(int(2))))]), els: Some(blk(vec![asg("x", Expr::Cast(Ty::Int(None), bx(int(3))))])) })) }]),
        ("while-and-loop-control", vec![decl(Ty::Bool, "go", Some(tru())), qd("q"), Stmt::While { cond: id("go"), body: blk(vec![call("U", u3(), vec![o("q")]), Stmt::Break, Stmt::Continue]) }, Stmt::While { cond: id("go"), body: sgl(Stmt::Reset(o("q"))) }, Stmt::End]),
        ("annotations-and-pragmas", vec![Stmt::Pragma("pragma user a b".into()), Stmt::Annotated(vec!["@first x".into(), "@second".into()], Box::new(decl(Ty::Int(None), "a", None))), Stmt::Pragma("#pragma z".into()), decl(Ty::Int(None), "b", None), Stmt::Annotated(vec!["@g".into()], Box::new(qd("q")))]),
        ("annotation-in-block", vec![decl(Ty::Int(None), "a", None), Stmt::If { cond: tru(), then: blk(vec![Stmt::Annotated(vec!["@inner".into()], Box::new(asg("a", Expr::Cast(Ty::Int(None), bx(int(1))))))]), els: None }, decl(Ty::Int(None), "b", None)]),
        ("redeclare-builtins", vec![decl(Ty::Int(None), "pi", None), Stmt::Gate { name: "U".into(), params: None, qubits: vec!["q".into()], body: vec![] }, Stmt::If { cond: tru(), then: blk(vec![decl(Ty::Int(None), "pi", None), decl(Ty::Float(None), "tau", Some(id("pi")))]), els: None }, decl(Ty::Float(None), "t2", Some(id("tau")))]),
        ("indexing-and-measure", vec![qr("q", 4), decl(Ty::Bit(Some(bx(int(4)))), "c", None), decl(Ty::Bit(None), "b", None), call("U", u3(), vec![oi("q", 0)]), Stmt::Assign { target: LValue::Indexed("c".into(), vec![Index::List(vec![IndexItem::Expr(int(0))])]), op: AssignOp::Assign, value: Expr::Measure(oi("q", 0)) }, asg("c", Expr::Measure(o("q"))), asg("b", Expr::Measure(oi("q", 3))), call("U", u3(), vec![Operand::Indexed("q".into(), vec![Index::List(vec![IndexItem::Range(int(0), None, int(1))])])]), call("U", u3(), vec![Operand::Indexed("q".into(), vec![Index::Set(vec![int(0), int(2)])])])]),
        ("assign-from-indexed", vec![decl(Ty::Bit(Some(bx(int(4)))), "c", None), decl(Ty::Bit(Some(bx(int(4)))), "d", None), decl(Ty::Bit(None), "b", None), asg("b", Expr::IndexedId("c".into(), vec![Index::List(vec![IndexItem::Expr(int(1))])])), Stmt::Assign { target: LValue::Indexed("d".into(), vec![Index::List(vec![IndexItem::Expr(int(0))])]), op: AssignOp::Assign, value: Expr::IndexedId("c".into(), vec![Index::List(vec![IndexItem::Expr(int(2))])]) }, Stmt::Assign { target: LValue::Indexed("d".into(), vec![Index::List(vec![IndexItem::Expr(int(3))])]), op: AssignOp::Assign, value: id("b") }, Stmt::If { cond: tru(), then: sgl(asg("b", Expr::IndexedId("d".into(), vec![Index::List(vec![IndexItem::Expr(int(1))])]))), els: None }]),
        ("for-iterables", vec![decl(Ty::Int(None), "acc", None), Stmt::For { ty: Ty::Int(None), var: "i".into(), iter: ForIter::Range(int(0), Some(int(2)), int(8)), body: blk(vec![asg("acc", id("i"))]) }, Stmt::For { ty: Ty::UInt(Some(bx(int(8)))), var: "j".into(), iter: ForIter::Set(vec![int(1), int(5), int(9)]), body: sgl(asg("acc", Expr::Cast(Ty::Int(None), bx(id("j"))))) }, Stmt::For { ty: Ty::Int(None), var: "k".into(), iter: ForIter::Range(int(3), None, id("acc")), body: blk(vec![]) }]),
        ("expressions", vec![decl(Ty::Int(None), "a", Some(int(3))), decl(Ty::Int(None), "b", Some(Expr::Un(UnOp::Neg, bx(int(4))))), decl(Ty::Int(None), "s", Some(Expr::Bin(BinOp::Add, bx(id("a")), bx(Expr::Bin(BinOp::Mul, bx(id("b")), bx(id("a"))))))), decl(Ty::Int(None), "t", Some(Expr::Bin(BinOp::Sub, bx(Expr::Paren(bx(Expr::Bin(BinOp::Rem, bx(id("a")), bx(id("b")))))), bx(Expr::Un(UnOp::Neg, bx(id("a"))))))), decl(Ty::Int(None), "u", Some(Expr::Bin(BinOp::BitXor, bx(Expr::Bin(BinOp::BitAnd, bx(id("a")), bx(id("b")))), bx(Expr::Bin(BinOp::BitOr, bx(id("a")), bx(Expr::Bin(BinOp::Shl, bx(id("b")), bx(Expr::Bin(BinOp::Shr, bx(id("a")), bx(id("b"))))))))))), decl(Ty::Float(None), "f", Some(Expr::Bin(BinOp::Div, bx(Expr::Float("1.5".into())), bx(Expr::Float("0.5".into()))))), decl(i32t(), "c", Some(Expr::Cast(i32t(), bx(id("f"))))), Stmt::If { cond: Expr::Bin(BinOp::Eq, bx(id("a")), bx(id("b"))), then: blk(vec![]), els: None }, Stmt::If { cond: Expr::Bin(BinOp::Neq, bx(id("a")), bx(id("b"))), then: blk(vec![]), els: None }]),
        ("power-operator", vec![decl(Ty::Int(None), "a", Some(int(3))), Stmt::If { cond: Expr::Bin(BinOp::Pow, bx(id("a")), bx(int(2))), then: blk(vec![]), els: None }]),
        ("literals", vec![decl(Ty::Int(None), "a", Some(Expr::Int("0xFF".into()))), decl(Ty::Float(None), "f", Some(Expr::Float("2.5e3".into()))), decl(Ty::Bool, "t", Some(Expr::Bool(false))), decl(Ty::Bit(Some(bx(int(4)))), "c", Some(Expr::BitStr("\"01_10\"".into()))), decl(Ty::Duration, "d", Some(Expr::Timing("2.5".into(), true, "us".into(), false))), decl(Ty::Complex(None), "z", Some(Expr::Imag("3".into(), false, false))), decl(Ty::Complex(None), "w", Some(Expr::Un(UnOp::Neg, bx(Expr::Imag("1.5".into(), true, false))))), decl(Ty::Float(None), "g", Some(Expr::Un(UnOp::Neg, bx(Expr::Float("0.5".into())))))]),
        ("io-declarations", vec![Stmt::IoDecl { input: true, ty: Ty::Angle(Some(bx(int(16)))), name: "theta".into() }, Stmt::IoDecl { input: false, ty: Ty::Bit(Some(bx(int(2)))), name: "res".into() }, Stmt::IoDecl { input: true, ty: Ty::Int(None), name: "theta".into() }]),
        ("aliases", vec![qr("q", 4), qd("r"), Stmt::Alias { name: "a1".into(), value: id("q") }, Stmt::Alias { name: "a2".into(), value: Expr::IndexedId("q".into(), vec![Index::List(vec![IndexItem::Range(int(0), None, int(1))])]) }, Stmt::Alias { name: "a3".into(), value: Expr::Bin(BinOp::Concat, bx(id("q")), bx(id("r"))) }, Stmt::Alias { name: "a1".into(), value: id("r") }]),
        ("unicode-builtin-constants", vec![
            decl(Ty::Float(None), "r", Some(id("π"))),
            decl(Ty::Float(None), "s", Some(id("ℇ"))),
            decl(Ty::Float(None), "t", Some(id("τ"))),
            decl(Ty::Float(None), "u", Some(id("pi"))),
            Stmt::If { cond: tru(), then: blk(vec![decl(Ty::Float(Some(bx(int(64)))), "τ", Some(Expr::Float("2.0".into()))), asg("r", id("τ")), asg("s", id("tau"))]), els: None },
            Stmt::If { cond: tru(), then: blk(vec![decl(Ty::Float(Some(bx(int(64)))), "pi", Some(Expr::Float("3.0".into()))), asg("r", id("π")), asg("s", id("pi"))]), els: None },
            Stmt::Gate { name: "gp".into(), params: Some(vec!["π".into()]), qubits: vec!["q".into()], body: vec![call("U", Some(vec![id("π"), int(0), int(0)]), vec![o("q")])] },
            Stmt::Def { name: "fe".into(), params: vec![(ParamTy::Scalar(Ty::Float(None)), "ℇ".into())], ret: Some(Ty::Float(None)), body: vec![Stmt::Return(Some(id("ℇ")))] },
            Stmt::For { ty: Ty::Float(None), var: "τ".into(), iter: ForIter::Set(vec![Expr::Float("1.0".into())]), body: blk(vec![asg("t", id("τ"))]) },
            asg("t", id("τ")),
        ]),
        ("gphase", vec![Stmt::GPhase { mods: vec![], arg: Expr::Float("0.5".into()), operands: vec![] }, Stmt::GPhase { mods: vec![Modifier::Inv], arg: id("pi"), operands: vec![] }, Stmt::Gate { name: "g".into(), params: Some(vec!["t".into()]), qubits: vec!["q".into()], body: vec![Stmt::GPhase { mods: vec![], arg: id("t"), operands: vec![] }] }]),
        ("nested-depth", vec![decl(Ty::Int(None), "a", Some(int(0))), Stmt::If { cond: tru(), then: blk(vec![Stmt::While { cond: tru(), body: blk(vec![Stmt::For { ty: Ty::Int(None), var: "i".into(), iter: ForIter::Set(vec![int(1)]), body: blk(vec![Stmt::Switch { control: id("i"), cases: vec![(vec![int(1)], vec![Stmt::If { cond: tru(), then: blk(vec![decl(Ty::Int(None), "a", Some(id("i"))), asg("a", id("i"))]), els: None }])], default: None }]) }]) }]), els: None }, asg("a", Expr::Cast(Ty::Int(None), bx(int(9))))]),
    ];
    v.drain(..).map(|(n, p)| (n.to_string(), p)).collect()
}

/// Probe x wrapper x hole matrix: a small expression whose diagnostics are known (an undeclared
/// name, an undeclared callee, a call with a wrong argument count, a qubit inside an arithmetic
/// operator, or — as a control — a declared variable) is placed, bare or wrapped one level deep
/// (parentheses, unary, cast, either side of several binary operators including the ones the
/// analyser does not represent, call argument), in every expression position of the statement
/// forms. The joint walk then demands exactly the diagnostics of the probe, on that statement.
pub fn probe_matrix() -> Vec<(String, Vec<Stmt>)> {
    let u3 = || Some(vec![int(0), int(0), int(0)]);
    let prelude = || -> Vec<Stmt> {
        vec![
            decl(Ty::Int(None), "a", Some(int(1))),
            decl(Ty::Int(None), "b", Some(int(2))),
            decl(Ty::Bool, "go", Some(tru())),
            qd("q"),
            qr("r", 4),
            decl(Ty::Bit(Some(bx(int(4)))), "c", None),
            Stmt::Def { name: "fn".into(), params: vec![(ParamTy::Scalar(Ty::Int(None)), "p".into())], ret: Some(Ty::Int(None)), body: vec![Stmt::Return(Some(id("p")))] },
        ]
    };
    let probes: Vec<(&str, Expr)> = vec![
        ("declared", id("a")),
        ("undeclared", id("zz")),
        ("undeclared-callee", Expr::Call("nf".into(), vec![int(1)])),
        ("wrong-arg-count", Expr::Call("fn".into(), vec![int(1), int(2)])),
        ("undeclared-in-call", Expr::Call("fn".into(), vec![id("zz")])),
        ("qubit-in-arithmetic", Expr::Paren(bx(Expr::Bin(BinOp::Add, bx(id("q")), bx(int(1)))))),
        ("hw-qubit-in-arithmetic", Expr::Paren(bx(Expr::Bin(BinOp::Mul, bx(int(2)), bx(Expr::Hw("$0".into())))))),
    ];
    type W = (&'static str, fn(Expr) -> Expr);
    let wrappers: Vec<W> = vec![
        ("bare", |e| e),
        ("paren", |e| Expr::Paren(bx(e))),
        ("neg", |e| Expr::Un(UnOp::Neg, bx(e))),
        ("cast", |e| Expr::Cast(Ty::Int(None), bx(e))),
        ("add-left", |e| Expr::Bin(BinOp::Add, bx(e), bx(id("b")))),
        ("mul-right", |e| Expr::Bin(BinOp::Mul, bx(id("b")), bx(e))),
        ("shl-right", |e| Expr::Bin(BinOp::Shl, bx(id("b")), bx(e))),
        ("call-arg", |e| Expr::Call("fn".into(), vec![e])),
    ];
    // boolean-valued wrappers, used where a condition is expected
    let cond_wrappers: Vec<W> = vec![
        ("eq-left", |e| Expr::Bin(BinOp::Eq, bx(e), bx(id("b")))),
        ("neq-right", |e| Expr::Bin(BinOp::Neq, bx(id("b")), bx(e))),
        ("lt-left", |e| Expr::Bin(BinOp::Lt, bx(e), bx(id("b")))),
        ("ge-right", |e| Expr::Bin(BinOp::Ge, bx(id("b")), bx(e))),
        ("logand-right", |e| Expr::Bin(BinOp::LogAnd, bx(id("go")), bx(Expr::Paren(bx(Expr::Bin(BinOp::Eq, bx(e), bx(int(1)))))))),
        ("logor-left", |e| Expr::Bin(BinOp::LogOr, bx(Expr::Paren(bx(Expr::Bin(BinOp::Neq, bx(e), bx(int(1)))))), bx(id("go")))),
    ];
    type H = (&'static str, bool, Box<dyn Fn(Expr) -> Vec<Stmt>>);
    let ix = |e: Expr| vec![Index::List(vec![IndexItem::Expr(e)])];
    let holes: Vec<H> = vec![
        ("decl-init", false, Box::new(|e| vec![decl(Ty::Int(None), "x", Some(e))])),
        ("assign-rhs", false, Box::new(|e| vec![asg("a", e)])),
        ("expr-stmt", false, Box::new(|e| vec![Stmt::ExprStmt(e)])),
        ("if-cond", true, Box::new(|e| vec![Stmt::If { cond: e, then: blk(vec![]), els: None }])),
        ("if-cond-else", true, Box::new(|e| vec![Stmt::If { cond: e, then: blk(vec![asg("a", int(1))]), els: Some(blk(vec![asg("b", int(2))])) }])),
        ("while-cond", true, Box::new(|e| vec![Stmt::While { cond: e, body: blk(vec![Stmt::Break]) }])),
        ("for-range-start", false, Box::new(|e| vec![Stmt::For { ty: Ty::Int(None), var: "i".into(), iter: ForIter::Range(e, None, int(9)), body: blk(vec![]) }])),
        ("for-range-step", false, Box::new(|e| vec![Stmt::For { ty: Ty::Int(None), var: "i".into(), iter: ForIter::Range(int(0), Some(e), int(9)), body: blk(vec![]) }])),
        ("for-range-stop", false, Box::new(|e| vec![Stmt::For { ty: Ty::Int(None), var: "i".into(), iter: ForIter::Range(int(0), None, e), body: blk(vec![]) }])),
        ("for-set-element", false, Box::new(|e| vec![Stmt::For { ty: Ty::Int(None), var: "i".into(), iter: ForIter::Set(vec![int(1), e, int(3)]), body: blk(vec![]) }])),
        ("switch-control", false, Box::new(|e| vec![Stmt::Switch { control: e, cases: vec![(vec![int(1)], vec![asg("a", int(1))])], default: Some(vec![]) }])),
        ("gate-argument", false, Box::new(|e| vec![call("U", Some(vec![int(0), e, int(0)]), vec![o("q")])])),
        ("gphase-argument", false, Box::new(|e| vec![Stmt::GPhase { mods: vec![], arg: e, operands: vec![] }])),
        ("pow-argument", false, Box::new(move |e| vec![Stmt::GateCall { mods: vec![Modifier::Pow(e)], name: "U".into(), args: Some(vec![int(0), int(0), int(0)]), operands: vec![o("q")] }])),
        ("qubit-index", false, Box::new(move |e| vec![call("U", Some(vec![int(0), int(0), int(0)]), vec![Operand::Indexed("r".into(), vec![Index::List(vec![IndexItem::Expr(e)])])])])),
        ("measure-index", false, Box::new(move |e| vec![Stmt::Assign { target: LValue::Indexed("c".into(), vec![Index::List(vec![IndexItem::Expr(int(0))])]), op: AssignOp::Assign, value: Expr::Measure(Operand::Indexed("r".into(), vec![Index::List(vec![IndexItem::Expr(e)])])) }])),
        ("assign-target-index", false, Box::new(move |e| vec![Stmt::Assign { target: LValue::Indexed("c".into(), vec![Index::List(vec![IndexItem::Expr(e)])]), op: AssignOp::Assign, value: Expr::Measure(o("q")) }])),
        ("alias-range-start", false, Box::new(move |e| vec![Stmt::Alias { name: "al".into(), value: Expr::IndexedId("r".into(), vec![Index::List(vec![IndexItem::Range(e, None, int(2))])]) }])),
        ("reset-index", false, Box::new(move |e| vec![Stmt::Reset(Operand::Indexed("r".into(), vec![Index::List(vec![IndexItem::Expr(e)])]))])),
        ("barrier-index", false, Box::new(move |e| vec![Stmt::Barrier(vec![o("q"), Operand::Indexed("r".into(), vec![Index::List(vec![IndexItem::Expr(e)])])])])),
        ("nested-in-block", false, Box::new(|e| vec![Stmt::If { cond: tru(), then: blk(vec![Stmt::While { cond: tru(), body: sgl(asg("a", e)) }]), els: None }])),
        ("return-value", false, Box::new(|e| vec![Stmt::Def { name: "g".into(), params: vec![(ParamTy::Scalar(Ty::Int(None)), "a".into()), (ParamTy::Scalar(Ty::Int(None)), "b".into()), (ParamTy::Qubit(None), "q".into())], ret: Some(Ty::Int(None)), body: vec![Stmt::Return(Some(e))] }])),
    ];
    let _ = (&u3, &ix);
    let mut out = vec![];
    for (pn, probe) in &probes {
        for (hn, is_cond, hole) in &holes {
            let ws: Vec<&W> = if *is_cond { wrappers.iter().take(2).chain(cond_wrappers.iter()).collect() } else { wrappers.iter().collect() };
            for (wn, w) in ws {
                let mut prog = prelude();
                prog.extend(hole(w(probe.clone())));
                // a later statement shows that the analysis went on normally
                prog.push(asg("b", id("a")));
                out.push((format!("probe:{pn}:{wn}:{hn}"), prog));
            }
        }
    }
    out
}
