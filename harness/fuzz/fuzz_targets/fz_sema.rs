#![no_main]
// bytes -> text; when it parses without diagnostics: C03 (analysis returns, scope depth 1) and the
// semantic half of C12 (diagnostic ranges); always: the pipeline gate of C11
mod common;
use libfuzzer_sys::fuzz_target;
use oq3_verif_harness::pipeline::{check_c03, check_gating_source};
use oq3_verif_harness::semprops::check_c12_semantic;

fuzz_target!(|data: &[u8]| {
    common::init();
    let text = String::from_utf8_lossy(data);
    let mut fails = vec![];
    if check_c03(&text, &mut fails) {
        check_c12_semantic(&text, &mut fails);
    }
    check_gating_source(&text, &mut fails);
    common::judge(fails, &["C03:", "C11:", "C12:"]);
});
