#!/bin/bash
# Developer tool: line/region coverage of the /repo crates reached by the quick tiers.
# Builds an instrumented harness with nightly into harness/target/cov (evidence of these runs is
# written to a scratch VERIF_ROOT copy so that /verif/evidence is not touched).
# usage: tools/coverage.sh [ID ...]   -> report in harness/target/cov/report.txt
set -u
cd /verif/harness || exit 2
TB=$HOME/.rustup/toolchains/nightly-x86_64-unknown-linux-gnu/lib/rustlib/x86_64-unknown-linux-gnu/bin
LLVM_PROFILE_FILE=/verif/harness/target/cov/build-%p-%m.profraw RUSTFLAGS="-C instrument-coverage" CARGO_NET_OFFLINE=true cargo +nightly build --release --offline --target-dir target/cov >/dev/null 2>&1 || { echo build failed; exit 2; }
C=/verif/harness/target/cov
rm -rf $C/prof $C/root; mkdir -p $C/prof $C/root
# scratch root: same inputs, own evidence/replays
for f in properties.jsonl known_findings.json findings corpus; do ln -sfn /verif/$f $C/root/$f; done
mkdir -p $C/root/evidence $C/root/harness/target; ln -sfn /repo $C/root/repo-link
IDS="${@:-C01 C02 C03 C04 C05 C06 C07 C08 C09 C10 C11 C12 C13 C14 C15 C16 C17 C18 C19 C20}"
for id in $IDS; do
  VERIF_ROOT=$C/root LLVM_PROFILE_FILE=$C/prof/$id-%p.profraw $C/release/oq3v check $id --tier quick | tail -1
done
$TB/llvm-profdata merge -sparse $C/prof/*.profraw -o $C/all.profdata
$TB/llvm-cov report $C/release/oq3v -instr-profile=$C/all.profdata --ignore-filename-regex='(\.cargo|rustc|/verif/harness/src)' > $C/report.txt 2>/dev/null
$TB/llvm-cov show $C/release/oq3v -instr-profile=$C/all.profdata --ignore-filename-regex='(\.cargo|rustc|/verif/harness/src)' --show-line-counts-or-regions > $C/show.txt 2>/dev/null
tail -n +1 $C/report.txt | awk '{print $1, $(NF-3), $(NF-2), $(NF-1), $NF}' | column -t | head -80
