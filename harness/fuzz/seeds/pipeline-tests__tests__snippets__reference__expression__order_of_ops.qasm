// lex: ok
// parse: ok
// sema: panic

a[1]+2|c*(sin(y)^!3.5*d[3]);
b = bit[8](a)[2:4];
