// lex: ok
// parse: ok
// sema: panic

{
  int ii = 32;
}
