// lex: ok
// parse: ok
// sema: panic

!my_var;
