// lex: ok
// parse: diag
// sema: skip

for myvar in { 1, 2, 3 };
for myvar1, myvar2 in { 1, 2, 3 } { x $0; }
for myvar in { x $0; } { x $0; }
for myvar in for { x $0; }
for myvar { x $0; }
for (true) { x $0; }
for { x $0; }
for for in { 1, 2, 3 } { x $0; }
for in { 1, 2, 3 } { x $0; }
while true { x $0; }
while (true) (true) { x $0; }
while x in { 1, 2, 3 } { x $0; }
while (true);
