//! Full-pipeline helpers: semantic analysis entry points, C03 (analysis returns normally),
//! the gating half of C11 and the semantic half of C12.

use crate::engine::*;
use crate::layout::Style;
use crate::modelgen::{Gen, Switches};
use crate::synprops::print_program;
use oq3_semantics::semantic_error::SemanticErrorList;
use oq3_semantics::syntax_to_semantics::{parse_source_string, ParseResult};
use oq3_source_file::{SourceString, SourceTrait};
use serde_json::json;

pub type Analysis = ParseResult<SourceString>;

pub fn analyze(text: &str) -> Result<Analysis, PanicInfo> {
    note_case(2, text);
    let r = guarded(|| parse_source_string(text, None));
    clear_case();
    r
}

pub fn clean_parse(text: &str) -> bool {
    matches!(
        guarded(|| {
            let p = oq3_syntax::SourceFile::parse_check_lex(text);
            p.have_parse() && p.errors().is_empty()
        }),
        Ok(true)
    )
}

pub fn all_semantic_errors(l: &SemanticErrorList, out: &mut Vec<(String, usize, usize, std::path::PathBuf)>) {
    for e in l.iter() {
        let r = e.range();
        out.push((format!("{:?}", e.kind()), r.start().into(), r.end().into(), l.source_file_path().clone()));
    }
    for inc in l.include_errors() {
        all_semantic_errors(inc, out);
    }
}

/// C03 oracle: analysis of a syntax-error-free program returns normally, results are readable,
/// only the global scope is open.
pub fn check_c03(text: &str, out: &mut Vec<Failure>) -> bool {
    if !clean_parse(text) {
        return false;
    }
    let detail = |actual: String| json!({"input": {"source": text}, "actual": actual});
    match analyze(text) {
        Err(p) => {
            out.push(Failure::new(format!("C03:{}", panic_key(&p)), detail(format!("{}:{} {}", p.file, p.line, p.msg))));
        }
        Ok(res) => {
            if res.any_syntax_errors() {
                out.push(Failure::new("C03:syntax-errors-reported-for-clean-parse", detail(String::new())));
            }
            let r = guarded(|| {
                let _ = format!("{:?}", res.program());
                let _ = format!("{:?}", res.symbol_table());
                let mut v = vec![];
                all_semantic_errors(res.semantic_errors(), &mut v);
                let _ = res.semantic_errors().len();
                (res.symbol_table().verif_scope_depth(), v.len())
            });
            match r {
                Err(p) => out.push(Failure::new(format!("C03:results-unreadable:{}", panic_key(&p)), detail(p.msg.clone()))),
                Ok((depth, n_diag)) => {
                    if depth != 1 {
                        out.push(Failure::new("C03:scope-left-open", detail(format!("scope depth {depth} after analysis"))));
                    }
                    // memory growth: a diagnostic refers to a node, and a program has at most one
                    // node per byte; far more diagnostics than that means that parts of the program
                    // are analysed over and over (the bound is generous: the double library
                    // include yields 32 diagnostics from one statement)
                    // a placeholder in the graph stands for a construct the analyser does not
                    // support: it comes with a diagnostic
                    let dbg = format!("{:?}", res.program());
                    let n_placeholders = dbg.matches("NullExpr").count() + dbg.matches("NullStmt").count();
                    if n_placeholders > 0 && n_diag == 0 {
                        out.push(Failure::new("C03:unsupported-construct-without-diagnostic", detail(format!("{n_placeholders} placeholders in the graph, no semantic diagnostic"))));
                    }
                    if n_diag > 64 + 8 * text.len() {
                        out.push(Failure::new("C03:diagnostics-grow-faster-than-the-program", detail(format!("{n_diag} semantic diagnostics for {} bytes of source", text.len()))));
                    }
                }
            }
        }
    }
    true
}

pub fn replay_c03(v: &serde_json::Value) -> Result<Vec<Failure>, String> {
    let text = v["input"]["source"].as_str().ok_or("no input.source")?;
    let mut out = vec![];
    check_c03(text, &mut out);
    Ok(out)
}

pub fn run_c03(ctx: &RunCtx) {
    ctx.set_rule("(a) generated programs of the supported subset with 0-3 injected semantic faults (semgen); (b) programs of the wider grammar: every statement and expression form the parser accepts, all operators in all operand positions, extreme literals, designators that are expressions/calls/negative/huge, shadowed built-ins; (c) mutated snippets and token soup filtered by the implementation itself to those with zero syntax diagnostics (yield reported). oracle: analysis returns under catch_unwind, program/symbol table/diagnostics are readable, scope depth is 1, the number of semantic diagnostics stays below 64 + 8 per source byte (repeated analysis of nested parts shows up as diagnostic blow-up), and a placeholder (NullExpr / NullStmt) in the graph — the mark of a construct the analyser does not support — never comes without a semantic diagnostic, also when the construct sits in an included file at depth 1-3 (file-system arrangements shared with C18). non-trivial = zero syntax diagnostics and >=1 statement; distinct by text");
    ctx.assume("'syntax-error-free' is decided by the implementation's own parse_check_lex: have_parse and no diagnostics");
    // (b) wider grammar, syntactic generator with switches on (so that programs parse cleanly)
    let n = ctx.pick(300_000u64, 10_000_000u64);
    ctx.random("wide-program", n, 900, |src| {
        let style = [Style::Minimal, Style::Spaced, Style::Wild][src.below(3)];
        let mut g = Gen::new(src, Switches::all_on());
        let prog = g.program(8);
        let pr = print_program(src, &prog, style);
        let mut rep = CaseReport::default();
        let judged = check_c03(&pr.text, &mut rep.failures);
        // a program that contains a construct the analyser has no translation for gets at least
        // one semantic diagnostic
        if judged && rep.failures.is_empty() {
            let r = crate::model::r_program(&prog);
            const MARKS: &[&str] = &[
                "(array-decl", "(old-decl", "(extern ", "(cal)", "(defcalgrammar", "(bin < ", "(bin <= ", "(bin > ", "(bin >= ", "(bin && ", "(bin || ", "(un ! ", "(un ~ ", "(array-lit",
                "(expr-stmt (block", "(bin += ", "(bin -= ", "(bin *= ", "(bin /= ", "(bin %= ", "(bin &= ", "(bin |= ", "(bin ^= ", "(bin <<= ", "(bin >>= ", "(bin **= ", "(io-array-decl",
            ];
            if let Some(m) = MARKS.iter().find(|m| r.contains(**m)) {
                rep.class("has-unsupported-construct");
                if let Ok(res) = analyze(&pr.text) {
                    let mut v = vec![];
                    all_semantic_errors(res.semantic_errors(), &mut v);
                    if v.is_empty() {
                        rep.fail("C03:unsupported-construct-accepted-silently", json!({"input": {"source": pr.text}, "expected": format!("at least one semantic diagnostic (model contains {m})"), "actual": "none"}));
                    }
                }
            }
        }
        rep.discarded = !judged;
        rep.class("wide-program");
        rep.nontrivial = Some(fnv64(pr.text.as_bytes()));
        rep.sample = Some(pr.text);
        rep
    });
    // (a) semantic generator
    crate::semprops::run_c03_semgen(ctx);
    // include arrangements: crashes and unreported unsupported constructs at any include depth
    crate::fsprops::run_c03_includes(ctx);
    // extreme literal / designator templates
    let templates = extreme_templates();
    ctx.par_units(templates.len(), |i, st| {
        let mut rep = CaseReport::default();
        let judged = check_c03(&templates[i], &mut rep.failures);
        rep.discarded = !judged;
        rep.class("template");
        rep.nontrivial = Some(fnv64(templates[i].as_bytes()));
        if i % 37 == 0 {
            rep.sample = Some(templates[i].clone());
        }
        ctx.eval_local("C03", st, rep);
    });
    // literals that cannot be represented (integers of 2^128 and more, in every spelling and
    // sign) in every position that takes an integer: each is reported, none vanishes silently
    let unrep = unrepresentable_templates();
    ctx.par_units(unrep.len(), |i, st| {
        let mut rep = CaseReport::default();
        let text = &unrep[i];
        let judged = check_c03(text, &mut rep.failures);
        if judged && rep.failures.is_empty() {
            if let Ok(res) = analyze(text) {
                let mut v = vec![];
                all_semantic_errors(res.semantic_errors(), &mut v);
                if v.is_empty() {
                    rep.fail("C03:unrepresentable-literal-without-diagnostic", json!({"input": {"source": text}, "expected": "at least one semantic diagnostic", "actual": "none"}));
                }
            }
        }
        rep.discarded = !judged;
        rep.class("unrepresentable-literal");
        rep.nontrivial = Some(fnv64(text.as_bytes()));
        if i % 23 == 0 {
            rep.sample = Some(text.clone());
        }
        ctx.eval_local("C03", st, rep);
    });
    // (c) filtered soup / mutants
    let snippets = crate::textgen::load_snippets();
    let n = ctx.pick(300_000u64, 10_000_000u64);
    ctx.random("filtered-mutant", n, 24, |src| {
        let mut rep = CaseReport::default();
        if snippets.is_empty() {
            rep.discarded = true;
            return rep;
        }
        let s = &snippets[src.below(snippets.len())];
        let text = crate::textgen::mutate(src, s);
        let judged = check_c03(&text, &mut rep.failures);
        rep.discarded = !judged;
        rep.class("filtered-mutant");
        if judged {
            rep.nontrivial = Some(fnv64(text.as_bytes()));
            rep.sample = Some(text);
        }
        rep
    });
    ctx.random("filtered-soup", n, 40, |src| {
        let n = src.below(24);
        let idx: Vec<usize> = (0..n).map(|_| crate::textgen::soup_token(src)).collect();
        let mut text = String::new();
        crate::textgen::join_tokens(&idx, &mut text);
        let mut rep = CaseReport::default();
        let judged = check_c03(&text, &mut rep.failures);
        rep.discarded = !judged;
        rep.class("filtered-soup");
        if judged && n > 0 {
            rep.nontrivial = Some(fnv64(text.as_bytes()));
            rep.sample = Some(text);
        }
        rep
    });
    // whole snippets
    ctx.par_units(snippets.len(), |i, st| {
        let mut rep = CaseReport::default();
        let judged = check_c03(&snippets[i], &mut rep.failures);
        rep.discarded = !judged;
        rep.class("snippet");
        rep.nontrivial = Some(fnv64(snippets[i].as_bytes()));
        ctx.eval_local("C03", st, rep);
    });
}

/// Programs that are well-formed except for one integer literal of magnitude >= 2^128.
pub fn unrepresentable_templates() -> Vec<String> {
    let w = "340282366920938463463374607431768211456";
    let hex = "0x1_0000_0000_0000_0000_0000_0000_0000_0000";
    let bin = format!("0b1{}", "0".repeat(128));
    let oct = format!("0o4{}", "0".repeat(42));
    let huge = "999999999999999999999999999999999999999999999999";
    let mut lits: Vec<String> = vec![];
    for m in [w.to_string(), hex.to_string(), bin, oct, huge.to_string(), format!("0{w}"), w.replace("4028", "4_028")] {
        lits.push(m.clone());
        lits.push(format!("-{m}"));
        lits.push(format!("- {m}"));
        lits.push(format!("({m})"));
        lits.push(format!("-({m})"));
    }
    let holes = [
        "{};", "int x = {};", "const int x = {};", "int x; x = {};", "uint y; y = {};", "float f = {};", "for int i in [{}:1] { }", "for int i in [0:{}] { }", "for int i in [0:{}:2] { }",
        "for int i in {1, {}} { }", "switch (1) { case {} { } }", "switch (1) { case 1, {} { } default { } }", "switch ({}) { case 1 { } }", "U({}, 0, 0) $0;", "U(1, 2, 3, {}) $0;", "gphase({});",
        "pow({}) @ U(0, 0, 0) $0;", "def f(int a) { } f({});", "def f(int a, int b) { } f(1, {});", "def f() -> int { return {}; }", "gate g(t) q { U({}, t, 0) q; }", "float({});", "int[32]({});",
        "bit[8] c; c[{}] = 1;", "qubit[4] q; U(0, 0, 0) q[{}];", "qubit[4] q; let al = q[{}:1];", "if (true) { int z = {}; }", "while (false) { {}; }", "int x = 1 + {};", "int x = {} * 2;",
        "if ({} == 1) { }", "@note\nint x = {};", "int a = 1; int b = {}; int c = 3;",
    ];
    let mut v = vec![];
    for h in holes {
        for l in &lits {
            v.push(h.replace("{}", l));
        }
    }
    v
}

fn extreme_templates() -> Vec<String> {
    let mut v: Vec<String> = vec![];
    // every sequence of up to three include-like statements (library, missing file, malformed
    // path, below global scope) around ordinary statements: none of them reads a file, all of
    // them parse cleanly
    let inc = [
        "include \"stdgates.inc\";",
        "include \"missing_file.inc\";",
        "include \"a\\qb.inc\";",
        "if (true) { include \"missing_too.inc\"; }",
        "int between = 1;",
    ];
    // odd expression forms (empty and non-empty tuples, brace and bracket lists, strings, blocks,
    // concatenation …) in every position where the grammar takes an expression; whatever parses
    // without diagnostics must be analysed without a crash
    let odd = [
        "()", "(1, 2)", "(a,)", "(())", "((), ())", "{}", "{1, 2}", "{{1}, {2}}", "[1, 2]", "\"str\"", "'s'", "x ++ y", "a[()]", "f(())", "-()", "!()", "~()",
        "array[int, 3](1)", "array[float[32], 2, 2](a)", "array[int, 3](())", "int(())", "float[32](())", "()[0]", "() + ()", "1 ** ()", "true", "$0", "pi", "U", "10ns", "2im", "a[0:1]", "a[{1, 2}]", "measure $0", "-true", "- - 1",
    ];
    let holes = [
        "{};", "int x = {};", "const int x = {};", "int x; x = {};", "int x; x += {};", "if ({}) { }", "if ({}) x = 1; else x = 2;", "while ({}) { }", "for int i in {} { }",
        "for int i in [{}:1] { }", "for int i in [0:{}] { }", "for int i in [0:{}:2] { }", "for int i in {{}} { }", "switch ({}) { case 1 { } }", "switch (1) { case {} { } }",
        "switch (1) { case 1, {} { } default { } }", "float({});", "int[{}] x;", "bit[{}] b;", "qubit[{}] q;", "complex[float[{}]] z;", "array[int, {}] a;", "delay[{}] $0;", "qubit q; pow({}) @ x q;",
        "qubit q; ctrl({}) @ x q, q;", "qubit q; negctrl({}) @ inv @ x q, q;", "gphase({});", "ctrl @ gphase({}) $0;", "U({}, 0, 0) $0;", "qubit q; U(0, {}, 0) q;", "def f(int a) { } f({});",
        "def f(int a, int b) { } f(1, {});", "int[8] x; x[{}] = 1;", "a[{}];", "a[0, {}];", "a[{}:{}];", "def f() -> int { return {}; }", "let al = {};", "const int n = {}; int[n] y;", "-{};", "{} + 1;",
        "1 * {};", "({});", "bit b = measure $0; b = {};", "input int x; output int y; y = {};", "gate g(t) q { U({}, t, 0) q; }", "if (true) { {}; }", "@note\nint x = {};",
    ];
    for h in holes {
        for e in odd {
            v.push(h.replace("{}", e));
        }
    }
    // nesting with an erroneous leaf: parentheses, unary minus, casts, index operators, blocks
    for depth in [1usize, 2, 4, 8, 12, 16] {
        v.push(format!("{}nope{};", "(".repeat(depth), ")".repeat(depth)));
        v.push(format!("int x = {}nope{};", "(".repeat(depth), ")".repeat(depth)));
        v.push(format!("qubit q; U({}nope{}, 0, 0) q;", "(".repeat(depth), ")".repeat(depth)));
        v.push(format!("{}nope;", "-".repeat(depth)));
        v.push(format!("{}nope{};", "float(".repeat(depth), ")".repeat(depth)));
        v.push(format!("nope{};", "[0]".repeat(depth)));
        v.push(format!("{}nope;{}", "if (true) { ".repeat(depth), " }".repeat(depth)));
        v.push(format!("{}nope;{}", "while (false) { ".repeat(depth), " }".repeat(depth)));
        v.push(format!("{}nope;{}", "{ ".repeat(depth), " }".repeat(depth)));
        v.push(format!("(nope + {}nope{});", "(1 * ".repeat(depth), ")".repeat(depth)));
    }
    // loop variables of a type that is not a scalar type
    for t in ["for array[int, 3] a in x { }", "int[8] x; for array[float[32], 2] a in x a;", "for array[int, 3] a in {1, 2} { a; }", "for array[int, 3] a in [0:1] { }"] {
        v.push(t.to_string());
    }
    // an include (library, missing file, malformed path) as the brace-less body of every control
    // flow statement, at top level and one level down
    for path in ["stdgates.inc", "missing_file.inc", "a\\qb.inc"] {
        let i = format!("include \"{path}\";");
        for t in [
            format!("bool c; if (c) {i}"),
            format!("bool c; if (c) {i} else {i}"),
            format!("bool c; int x; if (c) x = 1; else {i}"),
            format!("bool c; if (c) {{ }} else if (!c) {i}"),
            format!("bool c; while (c) {i}"),
            format!("for int k in [0:1] {i}"),
            format!("for int k in {{1, 2}} {i}"),
            format!("bool c; if (c) {{ if (c) {i} }}"),
            format!("bool c; while (c) {{ while (c) {i} }}"),
            format!("def f() {{ if (true) {i} }}"),
            format!("gate g q {{ {i} }}"),
            format!("def f() {{ {i} }}"),
            format!("switch (1) {{ case 1 {{ {i} }} default {{ {i} }} }}"),
            format!("bool c; if (c) {i}\nqubit q; h q;"),
        ] {
            v.push(t);
        }
    }
    for a in inc {
        v.push(format!("{a}\nqubit q;"));
        for b in inc {
            v.push(format!("{a}\n{b}\nqubit q;"));
            for c in inc {
                v.push(format!("{a}\n{b}\n{c}\nqubit q; h q;"));
            }
        }
    }
    let big = [
        "0", "1", "255", "4294967295", "4294967296", "4294967297", "18446744073709551615", "18446744073709551616",
        "340282366920938463463374607431768211455", "340282366920938463463374607431768211456",
        "999999999999999999999999999999999999999999999999", "0xFFFFFFFFFFFFFFFFFFFFFFFFFFFFFFFFF", "0b1", "0o7",
    ];
    let desig = ["n", "m", "pi", "U", "$0", "-1", "1+1", "f(1)", "2.5", "true", "\"01\"", "10ns", "x", "(3)", "int(3)", "a[0]", "~1", "!1", "1im"];
    for b in big {
        v.push(format!("{b};"));
        v.push(format!("int x = {b};"));
        v.push(format!("x = {b};"));
        v.push(format!("int x; x = -{b};"));
        v.push(format!("int[{b}] x;"));
        v.push(format!("qubit[{b}] q;"));
        v.push(format!("bit[{b}] c;"));
        v.push(format!("const int n = {b}; int[n] x;"));
        v.push(format!("const uint[8] n = {b}; bit[n] x;"));
        v.push(format!("float f = {b}.0;"));
        v.push(format!("duration d = {b}ns;"));
        v.push(format!("complex[float[{b}]] z;"));
        v.push(format!("x = int[{b}](1);"));
        v.push(format!("delay[{b}dt] $0;"));
        v.push(format!("-{b};"));
        v.push(format!("-{b}im;"));
    }
    for d in desig {
        v.push(format!("int[{d}] x;"));
        v.push(format!("const int n = 4; int m = 3; int[{d}] x;"));
        v.push(format!("qubit[{d}] q;"));
        v.push(format!("bit[{d}] c;"));
        v.push(format!("uint[{d}] x = 1;"));
        v.push(format!("angle[{d}] a;"));
        v.push(format!("complex[float[{d}]] z;"));
        v.push(format!("def f(int[{d}] a) {{ }}"));
        v.push(format!("x = float[{d}](1);"));
        v.push(format!("for uint[{d}] i in [0:1] {{ }}"));
        v.push(format!("input int[{d}] x;"));
    }
    for f in ["1e999", "1e-999", "1.7976931348623157e308", "1e309", "0.0", "5.", ".5", "1_0.0_1", "1E+2"] {
        v.push(format!("float x = {f};"));
        v.push(format!("-{f};"));
        v.push(format!("{f}im;"));
        v.push(format!("delay[{f}us] $0;"));
    }
    v.push(format!("bit[300] b = \"{}\";", "01".repeat(150)));
    v.push(format!("\"{}\";", "1".repeat(300)));
    for s in [
        "barrier;", "f(1);", "int f; f(1);", "gate g q {} g(1);", "U q;", "int pi;", "const int pi = 3;", "qubit q; q(1);",
        "const int x = 1; const int x = 2;", "const float[64] y = 1.5; const float[64] y = 2.5; int[y] z;",
        "int x; x += 1;", "int x; x <<= 1;", "a < b;", "a && b;", "!a;", "~a;", "{ a; }", "{ }", "[a, b];", "box { }",
        "-10ns;", "-true;", "-\"01\";", "true;", "measure $0;", "reset $0;", "delay[1ns];", "gphase(1);", "ctrl @ gphase(1);",
        "include \"stdgates.inc\"; include \"stdgates.inc\";", "if (U) @a\nb;", "h[1.5im] = 10ns;", "if (c) box { }", "while (c) { }",
        "for int i in x { }", "for int i in {1,2} i;", "switch (1) { default { } }", "switch (x) { case 1 { } }", "return;", "return 1;",
        "def f() { return; } f();", "def f(qubit q) -> bit { return measure q; } bit b = f($0);", "let a = $0;", "let a = b ++ c;",
        "qubit $0;", "input int x;", "output bit[2] c;", "input array[int, 2] a;", "array[int, 2] a;", "array[int[8], 2, 2] a = {{1,2},{3,4}};",
        "creg c[2];", "qreg q[2];", "extern f(int) -> int;", "cal { }", "defcal g $0 { }", "defcalgrammar \"openpulse\";",
        "pragma x", "@a\nint x;", "@a\n@b\n", "@a\n", "end;", "break;", "continue;", "OPENQASM 3;", "OPENQASM 3.0;\nOPENQASM 3.0;",
        "x = 1;", "x[0] = 1;", "x[0][1] = 1;", "int x; x[0:1] = 1;", "bit[4] b; b[{0,1}] = \"11\";", "qubit[2] q; h q[0:1];",
        "int x = y;", "int x = x;", "gate g q { g q; }", "def f() { f(); }", "gate g(a) q { U(a, a, a) q; } g(pi) $0;",
        "duration d = 1ns + 2ns;", "stretch s;", "angle a = pi;", "bool b = true; b = !b;", "complex z = 1 + 2im;", "complex[float] z = 2im * 3;",
        "int x = int(2.5);", "float y = float[32](1);", "bit b = bit(1);", "x = a ** b;", "x = a % b;", "x = (a | b) ^ c & d;", "x = a << 2 >> 1;",
        "int[8] y = 1+2;", "const int n = 3; int[8] y = n;", "float f = 2im;", "duration d; d = 1;", "uint u = -1;", "uint u; u = -1;",
    ] {
        v.push(s.to_string());
    }
    v
}

// ---------------- C11 gating half ----------------

pub fn check_gating_source(text: &str, out: &mut Vec<Failure>) {
    // full pipeline on a single source string: syntax diagnostics <=> empty program, no semantic diagnostics
    let has_syntax = !clean_parse(text);
    match analyze(text) {
        Err(p) => {
            if has_syntax {
                // a crash while there are syntax errors violates the gate (analysis must not run)
                out.push(Failure::new(format!("C11:pipeline:{}", panic_key(&p)), json!({"input": {"source": text}, "actual": p.msg})));
            }
            // a crash on clean input is C03's subject
        }
        Ok(res) => {
            let mut errs = vec![];
            all_semantic_errors(res.semantic_errors(), &mut errs);
            if has_syntax {
                if !res.any_syntax_errors() {
                    out.push(Failure::new("C11:pipeline:syntax-errors-not-reported", json!({"input": {"source": text}})));
                }
                if !res.program().stmts().is_empty() {
                    out.push(Failure::new("C11:pipeline:program-not-empty-despite-syntax-errors", json!({"input": {"source": text}, "actual": format!("{} statements", res.program().stmts().len())})));
                }
                if !errs.is_empty() {
                    out.push(Failure::new("C11:pipeline:semantic-diagnostics-despite-syntax-errors", json!({"input": {"source": text}, "actual": format!("{:?}", errs.first())})));
                }
            } else if res.any_syntax_errors() {
                out.push(Failure::new("C11:pipeline:syntax-errors-reported-for-clean-source", json!({"input": {"source": text}})));
            }
            let _ = res.syntax_result().num_syntax_errors();
        }
    }
}

pub fn run_gating(ctx: &RunCtx) {
    // valid programs, or with an injected syntax fault, through the full pipeline
    let n = ctx.pick(60_000u64, 3_000_000u64);
    ctx.random("pipeline-gate", n, 900, |src| {
        let style = [Style::Minimal, Style::Spaced, Style::Wild][src.below(3)];
        let prog = crate::semgen::gen_program(src, &crate::semgen::Profile::plain());
        let pr = print_program(src, &prog, style);
        let mut text = pr.text;
        let faulty = src.bool();
        if faulty {
            text = crate::semprops::inject_syntax_fault(src, &text);
        }
        let mut rep = CaseReport::default();
        check_gating_source(&text, &mut rep.failures);
        // a valid model with >= 1 translatable statement yields a non-empty program
        if !faulty && clean_parse(&text) && !prog.is_empty() {
            if let Ok(res) = analyze(&text) {
                if res.program().stmts().is_empty() {
                    rep.fail("C11:pipeline:empty-program-for-valid-source", json!({"input": {"source": text}}));
                }
            }
        }
        rep.class(if faulty { "syntax-fault" } else { "valid" });
        rep.nontrivial = Some(fnv64(text.as_bytes()));
        rep.sample = Some(text);
        rep
    });
    crate::fsprops::run_c11_includes(ctx);
}
