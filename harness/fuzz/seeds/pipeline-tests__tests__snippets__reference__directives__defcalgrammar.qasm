// lex: ok
// parse: todo
// sema: skip

defcalgrammar 'openpulse';
defcalgrammar "openpulse";
defcalgrammar "001";
