// lex: ok
// parse: diag
// sema: skip

input int[8];
output int[8];
input qreg myvar[4];
output qreg myvar[4];
input int[8] myvar = 32;
output int[8] myvar = 32;
input myvar;
output myvar;
