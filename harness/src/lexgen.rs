//! G-lex: well-formed lexeme sequences with expected (kind, text) lists, malformed lexemes,
//! separators (DESIGN.md §4.2). Used by C15, C11 and as seeds elsewhere.

use crate::engine::Src;

#[derive(Clone, Copy, PartialEq, Eq, Debug)]
pub enum Cls {
    Word,    // identifier, keyword, type name, `_`, unit, hardware qubit: fuses with words/numbers
    Number,  // numeric literal (fuses with words, numbers and '.')
    NumDot,  // float ending in '.', additionally fuses with digits
    Str,     // quoted string / bit string (a following word would become its suffix)
    Punct(char),
    Line,    // runs to end of line: must be followed by '\n'
    Version, // version header: must be followed by whitespace or ';'
}

#[derive(Clone, Debug)]
pub struct Lexeme {
    pub spelling: String,
    /// expected non-trivia tokens: (kind name, text)
    pub expect: Vec<(String, String)>,
    pub first: Cls,
    pub last: Cls,
    pub class: &'static str,
    pub lookahead_class: bool,
    /// malformed: expect a lexical error inside the span; `swallows` = runs to end of input
    pub malformed: bool,
    pub swallows: bool,
}

fn lx(spelling: &str, kind: &str, cls: Cls, class: &'static str) -> Lexeme {
    Lexeme {
        spelling: spelling.to_string(),
        expect: vec![(kind.to_string(), spelling.to_string())],
        first: cls,
        last: cls,
        class,
        lookahead_class: false,
        malformed: false,
        swallows: false,
    }
}

pub const KEYWORDS: &[&str] = &[
    "barrier", "box", "cal", "const", "def", "defcal", "defcalgrammar", "delay", "extern", "gate", "gphase",
    "include", "let", "measure", "dim", "reset", "break", "case", "continue", "default", "else", "end", "for",
    "if", "in", "return", "switch", "while", "array", "creg", "input", "mutable", "output", "qreg", "qubit",
    "readonly", "void", "ctrl", "inv", "negctrl", "pow", "false", "true",
];
pub const TYPES: &[&str] = &["angle", "bit", "bool", "complex", "duration", "float", "int", "stretch", "uint"];
pub const UNITS: &[&str] = &["ns", "us", "µs", "ms", "s", "dt", "im"];
pub const PUNCT: &[(char, &str)] = &[
    (';', "SEMICOLON"), (',', "COMMA"), ('.', "DOT"), ('(', "L_PAREN"), (')', "R_PAREN"), ('{', "L_CURLY"),
    ('}', "R_CURLY"), ('[', "L_BRACK"), (']', "R_BRACK"), ('@', "AT"), ('~', "TILDE"), ('?', "QUESTION"),
    (':', "COLON"), ('$', "DOLLAR"), ('=', "EQ"), ('!', "BANG"), ('<', "L_ANGLE"), ('>', "R_ANGLE"),
    ('-', "MINUS"), ('&', "AMP"), ('|', "PIPE"), ('+', "PLUS"), ('*', "STAR"), ('/', "SLASH"), ('^', "CARET"),
    ('%', "PERCENT"),
];
const LOOKALIKES: &[&str] = &[
    "pragmatic", "pragma_", "OPENQASMx", "OPEN", "OPENQASM3", "measured", "im2", "dta", "inta", "ns1", "sx", "s1",
    "ms_", "dtx", "us2", "p", "O", "pr", "Op", "gates", "iff", "xin", "uint8", "e", "E", "e3", "x0", "b1", "o7",
    "true_", "False", "True", "Int", "U", "pi", "qubits", "boxed", "_a", "a_", "__", "_0",
];
const ID_START: &[char] = &['a', 'b', 'q', 'x', 'Z', 'é', 'π', 'µ', 'τ', 'ℇ', '中', 'λ', '_'];
// includes characters that may continue but not start an identifier (XID_Continue only):
// combining acute, Arabic-Indic digit, middle dot, undertie, Devanagari vowel sign, full-width digit
const ID_CONT: &[char] = &['a', 'k', 'z', 'Q', '0', '7', '_', 'é', 'π', '中', 'µ', '\u{301}', '\u{663}', '\u{b7}', '\u{203f}', '\u{93f}', '\u{ff11}', 'ψ'];

pub fn is_reserved(s: &str) -> bool {
    s == "_" || s == "OPENQASM" || s == "pragma" || KEYWORDS.contains(&s) || TYPES.contains(&s)
}

fn digits(src: &mut Src, pool: &[char], max_groups: usize) -> String {
    // d+ (_ d+)*  — single underscores between digits
    let groups = 1 + src.below(max_groups);
    let mut s = String::new();
    for g in 0..groups {
        if g > 0 {
            s.push('_');
        }
        let n = 1 + src.below(4);
        for _ in 0..n {
            s.push(pool[src.below(pool.len())]);
        }
    }
    s
}

const DEC: &[char] = &['0', '1', '2', '3', '7', '9'];
const BIN: &[char] = &['0', '1'];
const OCT: &[char] = &['0', '3', '7'];
const HEX: &[char] = &['0', '9', 'a', 'b', 'e', 'f', 'A', 'E', 'F', 'd', 'D', 'c'];

pub fn gen_int(src: &mut Src) -> Lexeme {
    let mut l = match src.below(6) {
        0 | 1 => lx(&digits(src, DEC, 3), "INT_NUMBER", Cls::Number, "int-dec"),
        2 => lx(&format!("0b{}", digits(src, BIN, 3)), "INT_NUMBER", Cls::Number, "int-bin"),
        3 => lx(&format!("0o{}", digits(src, OCT, 3)), "INT_NUMBER", Cls::Number, "int-oct"),
        4 => lx(&format!("0x{}", digits(src, HEX, 3)), "INT_NUMBER", Cls::Number, "int-hex"),
        _ => {
            let (p, pool) = [("0B", BIN), ("0O", OCT), ("0X", HEX)][src.below(3)];
            lx(&format!("{p}{}", digits(src, pool, 2)), "INT_NUMBER", Cls::Number, "int-upper-prefix")
        }
    };
    l.lookahead_class = l.class != "int-dec";
    l
}

pub fn gen_float(src: &mut Src) -> Lexeme {
    let d = |src: &mut Src| digits(src, DEC, 2);
    let exp = |src: &mut Src| {
        let e = if src.bool() { "e" } else { "E" };
        let sign = ["", "+", "-"][src.below(3)];
        format!("{e}{sign}{}", digits(src, DEC, 1))
    };
    match src.below(6) {
        0 => lx(&format!("{}.{}", d(src), d(src)), "FLOAT_NUMBER", Cls::Number, "float-d.d"),
        1 => lx(&format!("{}.", d(src)), "FLOAT_NUMBER", Cls::NumDot, "float-d."),
        2 => {
            let mut l = lx(&format!(".{}", d(src)), "FLOAT_NUMBER", Cls::Number, "float-.d");
            l.lookahead_class = true;
            l.first = Cls::Punct('.');
            l
        }
        3 => lx(&format!("{}{}", d(src), exp(src)), "FLOAT_NUMBER", Cls::Number, "float-dEd"),
        4 => lx(&format!("{}.{}{}", d(src), d(src), exp(src)), "FLOAT_NUMBER", Cls::Number, "float-d.dEd"),
        _ => {
            let mut l = lx(&format!(".{}{}", d(src), exp(src)), "FLOAT_NUMBER", Cls::Number, "float-.dEd");
            l.first = Cls::Punct('.');
            l
        }
    }
}

pub fn gen_ident(src: &mut Src) -> Lexeme {
    loop {
        let mut s = String::new();
        s.push(ID_START[src.below(ID_START.len())]);
        let n = src.below(6);
        for _ in 0..n {
            s.push(ID_CONT[src.below(ID_CONT.len())]);
        }
        if is_reserved(&s) {
            continue;
        }
        let ascii = s.is_ascii();
        let mut l = lx(&s, "IDENT", Cls::Word, if ascii { "ident-ascii" } else { "ident-unicode" });
        l.lookahead_class = !ascii;
        return l;
    }
}

fn gen_unit_literal(src: &mut Src) -> Lexeme {
    // decimal integer or float, unit attached or separated by blanks
    let num = if src.bool() {
        lx(&digits(src, DEC, 2), "INT_NUMBER", Cls::Number, "")
    } else {
        let mut f = gen_float(src);
        if f.class == "float-d." && src.bool() {
            f = lx(&format!("{}.{}", digits(src, DEC, 1), digits(src, DEC, 1)), "FLOAT_NUMBER", Cls::Number, "");
        }
        f
    };
    let unit = UNITS[src.below(UNITS.len())];
    let gap = ["", "", " ", "  ", "\t"][src.below(5)];
    let mut l = lx("", "", Cls::Word, "unit-literal");
    l.spelling = format!("{}{gap}{unit}", num.spelling);
    l.expect = vec![num.expect[0].clone(), ("IDENT".to_string(), unit.to_string())];
    l.first = num.first;
    l.last = Cls::Word;
    l.lookahead_class = true;
    l
}

fn gen_bitstring(src: &mut Src) -> Lexeme {
    let q = if src.bool() { '"' } else { '\'' };
    let n = 1 + src.below(12);
    let mut s = String::new();
    s.push(q);
    for i in 0..n {
        s.push(if src.bool() { '1' } else { '0' });
        if i + 1 < n && src.chance(1, 4) {
            s.push('_');
        }
    }
    s.push(q);
    lx(&s, "BIT_STRING", Cls::Str, "bitstring")
}

fn gen_string(src: &mut Src) -> Lexeme {
    const POOL: &[char] = &['a', 'z', 'q', ' ', '.', '/', '*', '2', '0', '1', '_', 'é', '中', '#', '$', '@', ';', 'x', '-'];
    let q = if src.bool() { '"' } else { '\'' };
    let n = 1 + src.below(10);
    let mut body = String::new();
    for _ in 0..n {
        body.push(POOL[src.below(POOL.len())]);
    }
    if body.chars().all(|c| matches!(c, '0' | '1' | '_')) {
        body.push('s');
    }
    match src.below(6) {
        // escape sequences somewhere in an ordinary string
        0 => {
            let esc = ["\\\\", "\\\"", "\\'", "\\n", "\\t", "\\x41", "\\0"][src.below(7)];
            let at = body.char_indices().map(|(i, _)| i).nth(src.below(body.chars().count())).unwrap_or(0);
            body.insert_str(at, esc);
        }
        // bits, underscores and escape sequences only: a string, not a bit string
        1 => {
            body.clear();
            let k = 1 + src.below(6);
            let at = src.below(k);
            for i in 0..k {
                if i == at {
                    body.push_str(["\\\\", "\\\"", "\\'"][src.below(3)]);
                } else {
                    body.push(['0', '1', '_', '1', '0'][src.below(5)]);
                }
            }
        }
        _ => {}
    }
    lx(&format!("{q}{body}{q}"), "STRING", Cls::Str, "string")
}

fn line_text(src: &mut Src) -> String {
    const POOL: &[char] = &['a', 'b', ' ', ' ', '.', '/', '*', '"', '\'', '0', '1', '(', '{', ';', 'é', '中', '#', '@', '\t', '=', '\\'];
    let n = src.below(14);
    let mut s = String::new();
    for _ in 0..n {
        s.push(POOL[src.below(POOL.len())]);
    }
    s
}

fn gen_pragma(src: &mut Src) -> Lexeme {
    let head = if src.bool() { "pragma" } else { "#pragma" };
    // any blank that is not a line break may follow the keyword
    let ws = [' ', ' ', ' ', '\t', '\u{b}', '\u{c}', '\u{200e}', '\u{200f}'][src.below(8)];
    let mut l = lx(&format!("{head}{ws}{}", line_text(src)), "PRAGMA", Cls::Line, "pragma");
    l.lookahead_class = true;
    l.first = Cls::Word;
    l
}

fn gen_annotation(src: &mut Src) -> Lexeme {
    let id = gen_ident(src).spelling;
    let rest = line_text(src);
    let sp = if rest.is_empty() { "" } else { " " };
    let mut l = lx(&format!("@{id}{sp}{rest}"), "ANNOTATION", Cls::Line, "annotation");
    l.lookahead_class = true;
    l.first = Cls::Punct('@');
    l
}

fn gen_version(src: &mut Src) -> Lexeme {
    let ws = [" ", "  ", "\t", "\n", " \n ", "\u{b}", "\u{c}", "\u{200e}", "\u{200f} ", "\r\n", "\u{85}", "\u{2028}", "\u{2029}\t"][src.below(13)];
    let major = digits(src, DEC, 1);
    let v = if src.bool() { format!("{major}.{}", digits(src, DEC, 1)) } else { major };
    let mut l = lx(&format!("OPENQASM{ws}{v}"), "VERSION_STRING", Cls::Version, "version");
    l.lookahead_class = true;
    l.first = Cls::Word;
    l
}

pub fn gen_lexeme(src: &mut Src) -> Lexeme {
    match src.weighted(&[10, 4, 10, 4, 3, 2, 8, 6, 7, 4, 3, 14, 3, 3, 2]) {
        0 => gen_ident(src),
        1 => {
            let mut l = lx(LOOKALIKES[src.below(LOOKALIKES.len())], "IDENT", Cls::Word, "lookalike");
            l.lookahead_class = true;
            l
        }
        2 => {
            let k = KEYWORDS[src.below(KEYWORDS.len())];
            lx(k, &format!("{}_KW", k.to_uppercase()), Cls::Word, "keyword")
        }
        3 => {
            let t = TYPES[src.below(TYPES.len())];
            lx(t, &format!("{}_TY", t.to_uppercase()), Cls::Word, "type")
        }
        4 => {
            let mut l = lx(&format!("${}", digits(src, DEC, 1)), "HARDWAREIDENT", Cls::Word, "hardware");
            l.lookahead_class = true;
            l.first = Cls::Punct('$');
            l
        }
        5 => {
            let mut l = lx("_", "UNDERSCORE", Cls::Word, "underscore");
            l.lookahead_class = true;
            l
        }
        6 => gen_int(src),
        7 => gen_float(src),
        8 => gen_unit_literal(src),
        9 => gen_bitstring(src),
        10 => gen_string(src),
        11 => {
            let (c, k) = PUNCT[src.below(PUNCT.len())];
            lx(&c.to_string(), k, Cls::Punct(c), "punct")
        }
        12 => gen_pragma(src),
        13 => gen_annotation(src),
        _ => gen_version(src),
    }
}

/// May `next` follow `prev` with no separator at all? (conservative: false whenever two
/// spellings could fuse into one token or change each other's classification)
pub fn can_join(prev: &Lexeme, next: &Lexeme) -> bool {
    let wordlike = |c: Cls| matches!(c, Cls::Word | Cls::Number | Cls::NumDot | Cls::Line | Cls::Version);
    match prev.last {
        Cls::Line => false,
        // a version number may be followed directly by `;` (or by trivia of either kind)
        Cls::Version => matches!(next.first, Cls::Punct(';')),
        Cls::Word => matches!(next.first, Cls::Punct(_) | Cls::Str),
        Cls::Number | Cls::NumDot => matches!(next.first, Cls::Punct(c) if c != '.') || matches!(next.first, Cls::Str),
        // a literal suffix must start like an identifier: a digit or `.5` after the closing quote
        // starts a new token
        Cls::Str => matches!(next.first, Cls::Punct(_) | Cls::Str | Cls::Number | Cls::NumDot),
        Cls::Punct(c) => match c {
            '/' => !matches!(next.first, Cls::Punct('/') | Cls::Punct('*')),
            '.' => !matches!(next.first, Cls::Number | Cls::NumDot),
            // `$` followed by digits is a hardware qubit; followed by `_` the lexer's digit scanner
            // also takes the underscore: treated as fusing (conservative)
            '$' => !wordlike(next.first),
            // `@` starts an annotation only in front of an identifier start: a digit may follow
            '@' => !wordlike(next.first) || matches!(next.first, Cls::Number | Cls::NumDot),
            _ => true,
        },
    }
}

// every character of Pattern_White_Space occurs, alone and in runs
const WS: &[&str] = &[" ", " ", "  ", "\t", "\n", "\r\n", "\n\n", " \n ", "\u{85}", "\u{2028}", "\u{c}", "\u{b}", "\r", "\u{200e}", "\u{200f}", "\u{2029}", "\u{b}\u{c}", " \u{200e} "];

fn gen_comment(src: &mut Src) -> String {
    const POOL: &[char] = &['a', ' ', '"', '\'', '0', '$', '#', '@', 'é', '中', ';', 'p', 'O', '.', '1', '\\'];
    let n = src.below(8);
    let mut body = String::new();
    for _ in 0..n {
        body.push(POOL[src.below(POOL.len())]);
    }
    match src.below(6) {
        0 => format!("//{body}\n"),
        1 => format!("/*{body}*/"),
        2 => format!("/*{body}/* {body} */{body}*/"),
        3 => {
            // runs of stars inside the comment and in front of the closing delimiter (no `/` in
            // the body, so no delimiter can form by accident)
            let stars = |src: &mut Src| "*".repeat(src.below(5));
            let a = stars(src);
            let b = stars(src);
            let c = stars(src);
            format!("/*{a}{body}{b} {body}{c}*/")
        }
        4 => ["/**/", "/***/", "/****/", "/*****/", "/******/", "/** doc **/", "/* note **/", "/* a * b ** c ***/", "/*\n * x\n **/", "/* lib/*/std.inc */ */", "/*/*/*/ */ */ */", "/* /*/ */ x */"][src.below(12)].to_string(),
        _ => format!("//{body}*/ /* {body}\n"),
    }
}

/// A separator between `prev` and `next` (either may be None at the ends).
pub fn gen_sep(src: &mut Src, prev: Option<&Lexeme>, next: Option<&Lexeme>, minimal: bool) -> String {
    let mut s = String::new();
    let mut must = false;
    let mut first_ws = false;
    if let Some(p) = prev {
        match p.last {
            Cls::Line => {
                s.push('\n');
            }
            Cls::Version => {
                // white space or a comment of either kind, unless `;` follows
                must = !matches!(next, Some(n) if can_join(p, n));
            }
            Cls::Punct('/') => first_ws = true,
            _ => {}
        }
        if let Some(n) = next {
            if !can_join(p, n) && s.is_empty() {
                must = true;
            }
            if p.malformed || n.malformed {
                // ill-formed lexemes are always isolated by a blank
                must = true;
                first_ws = true;
            }
        }
        if p.swallows {
            // nothing may follow a lexeme that runs to the end of input
            return s;
        }
    }
    if minimal {
        if must {
            s.push(' ');
        }
        return s;
    }
    let pieces = if must { 1 + src.below(3) } else { src.below(3) };
    for i in 0..pieces {
        let ws = (i == 0 && first_ws && s.is_empty()) || src.chance(3, 4);
        if ws {
            s.push_str(WS[src.below(WS.len())]);
        } else {
            s.push_str(&gen_comment(src));
        }
    }
    s
}

pub struct Rendered {
    pub text: String,
    pub expect: Vec<(String, String)>,
    /// byte spans of malformed lexemes: (start, end)
    pub bad_spans: Vec<(usize, usize, &'static str)>,
}

pub fn render(src: &mut Src, seq: &[Lexeme], minimal: bool) -> Rendered {
    let mut text = String::new();
    let mut expect = vec![];
    let mut bad = vec![];
    text.push_str(&gen_sep(src, None, seq.first(), minimal));
    for (i, l) in seq.iter().enumerate() {
        let start = text.len();
        text.push_str(&l.spelling);
        if l.malformed {
            bad.push((start, if l.swallows { usize::MAX } else { text.len() }, l.class));
        }
        expect.extend(l.expect.iter().cloned());
        let next = seq.get(i + 1);
        let sep = gen_sep(src, Some(l), next, minimal);
        text.push_str(&sep);
        if next.is_none() && l.last == Cls::Version && !text.ends_with(|c: char| c.is_whitespace()) {
            text.push('\n');
        }
    }
    for b in bad.iter_mut() {
        if b.1 == usize::MAX {
            b.1 = text.len();
        }
    }
    Rendered { text, expect, bad_spans: bad }
}

pub fn gen_sequence(src: &mut Src, max: usize) -> Vec<Lexeme> {
    let n = 1 + src.below(max);
    (0..n).map(|_| gen_lexeme(src)).collect()
}

// ---------------- malformed lexemes (C11) ----------------

pub fn gen_malformed(src: &mut Src, allow_swallow: bool) -> Lexeme {
    let k = if allow_swallow { src.below(12) } else { 3 + src.below(9) };
    let mut l = match k {
        0 => {
            // unterminated quoted string
            let q = if src.bool() { '"' } else { '\'' };
            let mut l = lx(&format!("{q}abc d{}", if src.bool() { "\n e" } else { "" }), "STRING", Cls::Str, "unterminated-string");
            l.swallows = true;
            l
        }
        1 => {
            let q = if src.bool() { '"' } else { '\'' };
            let body = ["0101", "01_01", "0", "1_0_1", "01__01", "0__1_", "01\n"][src.below(7)];
            let mut l = lx(&format!("{q}{body}"), "BIT_STRING", Cls::Str, if body.contains("__") { "unterminated-bitstring-double-underscore" } else { "unterminated-bitstring" });
            l.swallows = true;
            l
        }
        2 => {
            let body = ["", " x ", " /* nested */ y", "/* /*", "*", " lib/*/std.inc */ y", "/*/", " a /*/ b */", "/*/ */ /*/"][src.below(9)];
            let mut l = lx(&format!("/*{body}"), "COMMENT", Cls::Punct(' '), "unterminated-block-comment");
            l.swallows = true;
            l.expect.clear();
            l
        }
        3 => {
            let p = ["0x", "0b", "0o", "0x_", "0b_", "0o_"][src.below(6)];
            lx(p, "INT_NUMBER", Cls::Number, "int-no-digits")
        }
        4 => {
            let p = ["0xg", "0bz", "0oq", "0xZ1"][src.below(4)];
            lx(p, "INT_NUMBER", Cls::Number, "int-no-digits-suffix")
        }
        5 => {
            let p = ["1e", "1E", "2.5e", "1.5e+", "3e-", ".5e", "1_0e", "7.25E+", "0e", "0E", "0e+", "0E-", "0.e", "00e", "0.0E+", ".0e", "0_0e-"][src.below(17)];
            lx(p, "FLOAT_NUMBER", Cls::Number, "float-empty-exponent")
        }
        6 => {
            let p = ["OPENQASM 3.", "OPENQASM x", "OPENQASM 3x", "OPENQASM 3.0x", "OPENQASM 3.1.2", "OPENQASM .5", "OPENQASM \n ;"][src.below(7)];
            let mut l = lx(p, "VERSION_STRING", Cls::Version, "bad-version");
            l.first = Cls::Word;
            l
        }
        7 => {
            let p = ["x😀", "😀", "a😀b", "q_😀😀", "é😀", "pragma😀", "pragma😀x", "int😀", "gate😀q", "measure😀", "OPENQASMx😀", "dim😀", "im😀", "ns😀",
                // emoji of other kinds: flags (regional indicators), skin-tone and hair components,
                // joined sequences, symbols with and without variation selector, older symbols
                "q🇩🇪", "🇺🇸", "total🇺🇸count", "b🏽", "🦰f", "👍🏽x", "a👨\u{200d}👩\u{200d}👧b", "x©", "x™y", "q❤", "q❤\u{fe0f}", "q⭐", "a‼", "q🀄", "q♻"][src.below(29)];
            lx(p, "IDENT", Cls::Word, "ident-emoji")
        }
        8 => {
            let p = ["#", "#foo", "#x1", "#pragmatic", "#di", "#p"][src.below(6)];
            let mut l = lx(p, "IDENT", Cls::Word, "pound-word");
            l.first = Cls::Punct('#');
            l
        }
        9 => lx(["$😀", "$🇫🇷", "$🏽", "$❤"][src.below(4)], "IDENT", Cls::Word, "hardware-emoji"),
        10 => {
            let p = ["OPENQASM 3.x", "OPENQASM 03.", "OPENQASM 3._"][src.below(3)];
            let mut l = lx(p, "VERSION_STRING", Cls::Version, "bad-version-2");
            l.first = Cls::Word;
            l
        }
        _ => {
            let p = ["1e_", "1e+_", "0x__", "2E-_"][src.below(4)];
            lx(p, "FLOAT_NUMBER", Cls::Number, "empty-digits-underscore")
        }
    };
    l.malformed = true;
    l
}

/// Representative lexemes for the exhaustive adjacency sweep.
pub fn representatives() -> Vec<Lexeme> {
    let mut v = vec![];
    let mk = |f: fn(&mut Src) -> Lexeme, seeds: &[u32]| -> Lexeme {
        let mut s = Src::new(seeds);
        f(&mut s)
    };
    for w in ["x", "pragmatic", "OPENQASMx", "s", "ns", "im", "dt", "e3", "b1", "é中", "_a", "p", "O", "µs", "true_"] {
        let mut l = lx(w, "IDENT", Cls::Word, "ident");
        l.lookahead_class = true;
        v.push(l);
    }
    for k in ["if", "in", "measure", "dim", "true", "pow", "defcalgrammar"] {
        v.push(lx(k, &format!("{}_KW", k.to_uppercase()), Cls::Word, "keyword"));
    }
    for t in ["int", "duration"] {
        v.push(lx(t, &format!("{}_TY", t.to_uppercase()), Cls::Word, "type"));
    }
    let mut u = lx("_", "UNDERSCORE", Cls::Word, "underscore");
    u.lookahead_class = true;
    v.push(u);
    let mut h = lx("$12", "HARDWAREIDENT", Cls::Word, "hardware");
    h.first = Cls::Punct('$');
    h.lookahead_class = true;
    v.push(h);
    for n in ["0", "12", "1_000", "0b101", "0o17", "0x1F", "0xe3", "0B1", "0X1f"] {
        v.push(lx(n, "INT_NUMBER", Cls::Number, "int"));
    }
    for n in ["1.5", "1e3", "2.5E-3", "1.e3"] {
        v.push(lx(n, "FLOAT_NUMBER", Cls::Number, "float"));
    }
    v.push(lx("5.", "FLOAT_NUMBER", Cls::NumDot, "float-d."));
    let mut f = lx(".5", "FLOAT_NUMBER", Cls::Number, "float-.d");
    f.first = Cls::Punct('.');
    f.lookahead_class = true;
    v.push(f);
    for (num, kind, unit) in [("10", "INT_NUMBER", "ns"), ("2.5", "FLOAT_NUMBER", "im"), ("1e3", "FLOAT_NUMBER", "dt"), ("3", "INT_NUMBER", "s"), ("7", "INT_NUMBER", "µs")] {
        let mut l = lx(&format!("{num}{unit}"), kind, Cls::Number, "unit-literal");
        l.expect = vec![(kind.to_string(), num.to_string()), ("IDENT".to_string(), unit.to_string())];
        l.last = Cls::Word;
        l.lookahead_class = true;
        v.push(l);
    }
    v.push(lx("\"01_01\"", "BIT_STRING", Cls::Str, "bitstring"));
    v.push(lx("'1'", "BIT_STRING", Cls::Str, "bitstring"));
    v.push(lx("\"a b\"", "STRING", Cls::Str, "string"));
    v.push(lx("'x/*'", "STRING", Cls::Str, "string"));
    for (c, k) in PUNCT {
        v.push(lx(&c.to_string(), k, Cls::Punct(*c), "punct"));
    }
    let _ = mk;
    let mut p = lx("pragma foo \"bar", "PRAGMA", Cls::Line, "pragma");
    p.first = Cls::Word;
    p.lookahead_class = true;
    v.push(p);
    let mut p = lx("#pragma x", "PRAGMA", Cls::Line, "pragma");
    p.first = Cls::Word;
    p.lookahead_class = true;
    v.push(p);
    let mut a = lx("@bind a b", "ANNOTATION", Cls::Line, "annotation");
    a.first = Cls::Punct('@');
    a.lookahead_class = true;
    v.push(a);
    let mut a = lx("@x", "ANNOTATION", Cls::Line, "annotation");
    a.first = Cls::Punct('@');
    a.lookahead_class = true;
    v.push(a);
    let mut ver = lx("OPENQASM 3.0", "VERSION_STRING", Cls::Version, "version");
    ver.first = Cls::Word;
    ver.lookahead_class = true;
    v.push(ver);
    let mut ver = lx("OPENQASM\t3", "VERSION_STRING", Cls::Version, "version");
    ver.first = Cls::Word;
    ver.lookahead_class = true;
    v.push(ver);
    v
}
