NOT_YET = {}
T_TEXT = "generated-input search: bounded-exhaustive token/string enumeration + proptest-driven random text, with in-process oracle"
claim("C01", T_TEXT + " (no panic, progress guard, linear work bound)",
      "Exploration: every token sequence up to length 3 (quick) / 4 (thorough) over the full 121-spelling token alphabet, every string up to length 5/6 over three 14-character alphabets, 10^5-10^7 random token-soup / character-soup / mutated-snippet inputs, long repetitions and nesting probes, each run through tokenize, LexedStr, the raw parser and both public parse entry points under catch_unwind with the oq3_verif progress guard and a linear work bound. Absence beyond the bounds is not established.",
      "Trusted: std, rowan, the hook budget (10 000 + 64/token events, 100 000 + 1024/token look-aheads without consuming a token) as the stuck criterion; debug assertions and overflow checks are ON in the harness build.", "§6 C01")
claim("C02", T_TEXT + " (round-trip text == leaves, tiling invariants)",
      "Exploration with a round-trip oracle: for the same inputs as C01 the tree of both entry points must be a single SOURCE_FILE root spanning [0,len), its text and the concatenation of its leaf tokens must equal the input byte-for-byte, and every node's range must equal the contiguous span of its children.",
      "Trusted: rowan's text_range arithmetic (ranges derive from green lengths), std string comparison.", "§6 C02")
claim("C14", "generated-input search: bounded-exhaustive short strings over 3 critical alphabets + proptest-driven random text, partition/idempotence oracle",
      "Exploration: all strings of length <= 6 (quick) / 7 (thorough) over each of three 14-character alphabets of lexically critical characters (exhaustive), plus random text; oracle = token lengths > 0, on char boundaries, suffix offset <= length, lengths sum to the input, LexedStr offsets strictly increasing and slicing round-trips, second tokenize identical.",
      "Trusted: std::str char-boundary predicates.", "§6 C14")
