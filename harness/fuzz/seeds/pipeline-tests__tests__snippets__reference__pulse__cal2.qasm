// lex: todo
// parse: todo
// sema: skip

cal {}
cal {One long, otherwise invalid token.}
cal {Outer {nested} outer}
cal {£$&£*(")}

