// lex: ok
// parse: ok
// sema: panic

if(spec[i] == 0 && spec[n+i] == 1) {
  x q[i];
}
