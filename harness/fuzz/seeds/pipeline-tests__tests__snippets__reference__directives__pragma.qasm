// lex: ok
// parse: ok
// sema: ok

pragma IO_BIND[2:3]
#pragma  __directive_info__ 0
