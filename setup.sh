#!/bin/bash
# Offline build of the verification harness (and fuzz targets when present).
set -eu
ROOT="$(cd "$(dirname "${BASH_SOURCE[0]}")" && pwd)"
cd "$ROOT"
export CARGO_NET_OFFLINE=true
[ -e "$ROOT/repo-link" ] || ln -sfn /repo "$ROOT/repo-link"
(cd harness && cargo build --release --offline)
echo "setup ok"
