//! C08 (expression typing / conversions), C09 (declared types), C10 (literal values).

use crate::engine::*;
use crate::pipeline::*;
use crate::semcheck::{strip_const, STD_GATES};
use oq3_semantics::asg;
use oq3_semantics::symbols::{SymbolTable, SymbolType};
use oq3_semantics::types::{ArrayDims, IsConst, SubroutineDef, Type};
use oq3_source_file::SourceTrait;
use serde_json::json;

fn c(b: bool) -> IsConst {
    if b {
        IsConst::True
    } else {
        IsConst::False
    }
}

fn type_diag_count(res: &Analysis) -> (usize, Vec<String>) {
    let mut v = vec![];
    all_semantic_errors(res.semantic_errors(), &mut v);
    let kinds: Vec<String> = v.iter().map(|x| x.0.clone()).collect();
    let n = kinds.iter().filter(|k| matches!(k.as_str(), "IncompatibleTypesError" | "CastError" | "IncompatibleDimensionError")).count();
    (n, kinds)
}

// ------------------------------------------------------------------------------------------
// C08 — local consistency of the typed graph
// ------------------------------------------------------------------------------------------

struct Tw<'a> {
    table: &'a SymbolTable,
    text: &'a str,
    out: Vec<Failure>,
    n_exprs: usize,
    void_arith: Vec<String>,
    /// the caller knows that operands of operators may be casts written in the source (then a
    /// cast operand that already has the result type may be the operand itself, not a wrapper)
    source_casts_as_operands: bool,
}

fn base(t: &Type) -> String {
    format!("{:?}", t.base_type())
}

impl<'a> Tw<'a> {
    fn fail(&mut self, key: String, expected: String, actual: String) {
        if self.out.len() < 12 {
            self.out.push(Failure::new(key, json!({"input": {"source": self.text}, "expected": expected, "actual": actual})));
        }
    }

    fn uncast<'b>(e: &'b asg::TExpr) -> &'b asg::TExpr {
        match e.expression() {
            asg::Expr::Cast(c) => c.operand(),
            _ => e,
        }
    }

    fn sym_type(&self, s: &oq3_semantics::symbols::SymbolIdResult) -> Type {
        match s {
            Ok(id) if SymbolTable::verif_symbol_index(id) < self.table.verif_symbols().len() => self.table[id].symbol_type().clone(),
            _ => Type::Undefined,
        }
    }

    fn operand_shape(&self, o: &asg::TExpr) -> Option<Type> {
        // the bit shape of a measured operand
        match o.expression() {
            asg::Expr::GateOperand(asg::GateOperand::Identifier(s)) => match self.sym_type(s) {
                Type::Qubit | Type::HardwareQubit => Some(Type::Bit(IsConst::False)),
                Type::QubitArray(d) => Some(Type::BitArray(d, IsConst::False)),
                _ => None,
            },
            asg::Expr::GateOperand(asg::GateOperand::HardwareQubit(_)) => Some(Type::Bit(IsConst::False)),
            asg::Expr::GateOperand(asg::GateOperand::IndexedIdentifier(ii)) => {
                if let Type::QubitArray(ArrayDims::D1(_)) = self.sym_type(ii.identifier()) {
                    if ii.indexes().len() == 1 {
                        if let asg::IndexOperator::ExpressionList(l) = &ii.indexes()[0] {
                            if l.expressions.len() == 1 && !matches!(l.expressions[0].expression(), asg::Expr::RangeExpression(_)) {
                                return Some(Type::Bit(IsConst::False));
                            }
                        }
                    }
                }
                None
            }
            _ => None,
        }
    }

    fn texpr(&mut self, e: &asg::TExpr) {
        self.n_exprs += 1;
        let ty = e.get_type().clone();
        match e.expression() {
            asg::Expr::Identifier(s) => {
                let st = self.sym_type(s);
                if st != ty {
                    self.fail(format!("C08:identifier-type:{}", base(&st)), format!("{st:?}"), format!("{ty:?}"));
                }
            }
            asg::Expr::Literal(l) => {
                let (class, ok) = match l {
                    asg::Literal::Int(_) => ("int", matches!(ty, Type::Int(_, IsConst::True))),
                    asg::Literal::Float(_) => ("float", matches!(ty, Type::Float(_, IsConst::True))),
                    asg::Literal::ImaginaryInt(_) => ("imaginary-int", matches!(ty, Type::Complex(_, IsConst::True))),
                    asg::Literal::ImaginaryFloat(_) => ("imaginary-float", matches!(ty, Type::Complex(_, IsConst::True))),
                    asg::Literal::Bool(_) => ("bool", matches!(ty, Type::Bool(IsConst::True))),
                    asg::Literal::BitString(b) => {
                        let n = b.value().chars().filter(|c| *c == '0' || *c == '1').count();
                        ("bitstring", ty == Type::BitArray(ArrayDims::D1(n), IsConst::True))
                    }
                    asg::Literal::TimingIntLiteral(_) | asg::Literal::TimingFloatLiteral(_) => ("duration", matches!(ty, Type::Duration(IsConst::True))),
                    asg::Literal::Array => ("array", true),
                };
                if !ok {
                    self.fail(format!("C08:literal-type:{class}"), format!("const type of literal class {class}"), format!("{ty:?}"));
                }
            }
            asg::Expr::Cast(cast) => {
                if cast.get_type() != &ty {
                    self.fail("C08:cast-node-type".into(), format!("{:?}", cast.get_type()), format!("{ty:?}"));
                }
                self.texpr(cast.operand());
            }
            asg::Expr::MeasureExpression(m) => {
                if let Some(shape) = self.operand_shape(m.operand()) {
                    if strip_const(&shape) != strip_const(&ty) {
                        let k = match m.operand().expression() {
                            asg::Expr::GateOperand(asg::GateOperand::IndexedIdentifier(_)) => "indexed",
                            _ => "plain",
                        };
                        self.fail(format!("C08:measure-type:{k}"), format!("{shape:?}"), format!("{ty:?}"));
                    }
                }
                self.texpr(m.operand());
            }
            asg::Expr::BinaryExpr(b) => {
                if let asg::BinaryOp::ArithOp(op) = b.op() {
                    let tl = Self::uncast(b.left()).get_type().clone();
                    let tr = Self::uncast(b.right()).get_type().clone();
                    let mut common = asg::implicit_cast_type(op, &tl, &tr);
                    if ty != common && self.source_casts_as_operands {
                        for (l2, r2) in [(b.left().get_type(), &tr), (&tl, b.right().get_type()), (b.left().get_type(), b.right().get_type())] {
                            let c2 = asg::implicit_cast_type(op, l2, r2);
                            if c2 == ty {
                                common = c2;
                                break;
                            }
                        }
                    }
                    let key = format!("{op:?}:{},{}", base(&tl), base(&tr));
                    if ty != common {
                        self.fail(format!("C08:arith:result-is-not-common-type:{key}"), format!("{common:?}"), format!("{ty:?}"));
                    }
                    for (side, x) in [("left", b.left()), ("right", b.right())] {
                        let ok = x.get_type() == &ty;
                        // either already of that type, or an explicit cast to exactly it
                        if !ok {
                            self.fail(format!("C08:arith:{side}-operand-neither-common-type-nor-cast:{key}"), format!("{ty:?}"), format!("{:?}", x.get_type()));
                        }
                    }
                    if ty == Type::Void && tl != Type::Undefined && tr != Type::Undefined {
                        self.void_arith.push(key);
                    }
                }
                self.texpr(b.left());
                self.texpr(b.right());
            }
            asg::Expr::UnaryExpr(u) => self.texpr(u.operand()),
            asg::Expr::SubroutineCall(call) => {
                if let Type::SubroutineDef(d) = self.sym_type(call.name()) {
                    if strip_const(&d.return_type) != strip_const(&ty) {
                        self.fail("C08:call-type".into(), format!("{:?}", d.return_type), format!("{ty:?}"));
                    }
                }
                for p in call.params().unwrap_or(&[]) {
                    self.texpr(p);
                }
            }
            asg::Expr::GateOperand(g) => match g {
                asg::GateOperand::Identifier(s) => {
                    let st = self.sym_type(s);
                    if st != ty {
                        self.fail(format!("C08:identifier-type:operand:{}", base(&st)), format!("{st:?}"), format!("{ty:?}"));
                    }
                }
                asg::GateOperand::IndexedIdentifier(ii) => self.indexed(ii),
                asg::GateOperand::HardwareQubit(_) => {}
            },
            asg::Expr::IndexedIdentifier(ii) => self.indexed(ii),
            asg::Expr::Return(r) => {
                if let Some(v) = r.value() {
                    self.texpr(v);
                }
            }
            asg::Expr::SetExpression(s) => {
                for x in s.expressions() {
                    self.texpr(x);
                }
            }
            asg::Expr::RangeExpression(r) => {
                self.texpr(r.start());
                if let Some(s) = r.step() {
                    self.texpr(s);
                }
                self.texpr(r.stop());
            }
            asg::Expr::HardwareQubit(_) | asg::Expr::IndexExpression(_) | asg::Expr::NullExpr => {}
        }
    }

    fn indexed(&mut self, ii: &asg::IndexedIdentifier) {
        for ix in ii.indexes() {
            match ix {
                asg::IndexOperator::SetExpression(s) => {
                    for x in s.expressions() {
                        self.texpr(x);
                    }
                }
                asg::IndexOperator::ExpressionList(l) => {
                    for x in &l.expressions {
                        self.texpr(x);
                    }
                }
            }
        }
    }

    fn block(&mut self, v: &[asg::Stmt]) {
        for s in v {
            self.stmt(s);
        }
    }

    fn stmt(&mut self, s: &asg::Stmt) {
        use asg::Stmt::*;
        match s {
            Alias(a) => self.texpr(a.rhs()),
            AnnotatedStmt(a) => self.stmt(a.statement()),
            Assignment(a) => {
                if let asg::LValue::IndexedIdentifier(ii) = a.lvalue() {
                    self.indexed(ii);
                }
                self.texpr(a.rvalue());
            }
            Barrier(b) => {
                for q in b.qubits().unwrap_or(&[]) {
                    self.texpr(q);
                }
            }
            Block(b) => self.block(b.statements()),
            DeclareClassical(d) => {
                if let Some(i) = d.initializer() {
                    self.texpr(i);
                }
            }
            DefStmt(d) => self.block(d.block().statements()),
            Delay(d) => {
                self.texpr(d.duration());
                for q in d.qubits() {
                    self.texpr(q);
                }
            }
            ExprStmt(e) => self.texpr(e),
            ForStmt(f) => {
                match f.iterable() {
                    asg::ForIterable::SetExpression(s) => {
                        for x in s.expressions() {
                            self.texpr(x);
                        }
                    }
                    asg::ForIterable::RangeExpression(r) => {
                        self.texpr(r.start());
                        if let Some(s) = r.step() {
                            self.texpr(s);
                        }
                        self.texpr(r.stop());
                    }
                    asg::ForIterable::Expr(e) => self.texpr(e),
                }
                self.block(f.loop_body().statements());
            }
            GPhaseCall(g) => self.texpr(g.arg()),
            ModifiedGPhaseCall(g) => self.texpr(g.arg()),
            GateCall(g) => {
                for p in g.params().unwrap_or(&[]) {
                    self.texpr(p);
                }
                for q in g.qubits() {
                    self.texpr(q);
                }
                for m in g.modifiers() {
                    match m {
                        asg::GateModifier::Pow(e) => self.texpr(e),
                        asg::GateModifier::Ctrl(Some(e)) | asg::GateModifier::NegCtrl(Some(e)) => self.texpr(e),
                        _ => {}
                    }
                }
            }
            GateDefinition(g) => self.block(g.block().statements()),
            If(i) => {
                self.texpr(i.condition());
                self.block(i.then_branch().statements());
                if let Some(e) = i.else_branch() {
                    self.block(e.statements());
                }
            }
            Reset(r) => self.texpr(r.gate_operand()),
            SwitchCaseStmt(sw) => {
                self.texpr(sw.control());
                for c in sw.cases() {
                    for v in c.control_values() {
                        self.texpr(v);
                    }
                    self.block(c.statements());
                }
                if let Some(d) = sw.default_block() {
                    self.block(d);
                }
            }
            While(w) => {
                self.texpr(w.condition());
                self.block(w.loop_body().statements());
            }
            _ => {}
        }
    }
}

/// Local typing consistency of a whole analysed program. Returns number of typed expressions.
pub fn check_typed_graph(text: &str, res: &Analysis, out: &mut Vec<Failure>) -> usize {
    check_typed_graph_with(text, res, false, out)
}

pub fn check_typed_graph_with(text: &str, res: &Analysis, source_casts_as_operands: bool, out: &mut Vec<Failure>) -> usize {
    let r = guarded(|| {
        let mut w = Tw { table: res.symbol_table(), text, out: vec![], n_exprs: 0, void_arith: vec![], source_casts_as_operands };
        w.block(res.program().stmts());
        let (n_type_diags, kinds) = type_diag_count(res);
        if n_type_diags == 0 {
            let va = std::mem::take(&mut w.void_arith);
            for k in va {
                w.fail(format!("C08:arith:no-common-type-and-no-diagnostic:{k}"), "a common type or a type diagnostic".into(), format!("Void; diagnostics: {kinds:?}"));
            }
        }
        (w.out, w.n_exprs)
    });
    match r {
        Ok((f, n)) => {
            out.extend(f);
            n
        }
        Err(p) => {
            out.push(Failure::new(
                if is_harness_panic(&p) { format!("HARNESS:typed-graph:{}:{}", p.file, p.line) } else { format!("C08:{}", panic_key(&p)) },
                json!({"input": {"source": text}, "actual": p.msg}),
            ));
            0
        }
    }
}

// ---- decision table ----

#[derive(Clone, Debug, PartialEq)]
struct TT {
    name: &'static str,
    w: Option<u32>,
}

fn tt_spelling(t: &TT) -> String {
    match (t.name, t.w) {
        ("complex", Some(w)) => format!("complex[float[{w}]]"),
        ("bit", Some(w)) => format!("bit[{w}]"),
        (n, Some(w)) => format!("{n}[{w}]"),
        (n, None) => n.to_string(),
    }
}

fn tt_type(t: &TT, konst: bool) -> Type {
    let k = c(konst);
    match t.name {
        "int" => Type::Int(t.w, k),
        "uint" => Type::UInt(t.w, k),
        "float" => Type::Float(t.w, k),
        "angle" => Type::Angle(t.w, k),
        "complex" => Type::Complex(t.w, k),
        "bool" => Type::Bool(k),
        "duration" => Type::Duration(k),
        "stretch" => Type::Stretch(k),
        "bit" => match t.w {
            Some(n) => Type::BitArray(ArrayDims::D1(n as usize), k),
            None => Type::Bit(k),
        },
        _ => unreachable!(),
    }
}

fn table_types(thorough: bool) -> Vec<TT> {
    let mut v = vec![];
    let ws: &[Option<u32>] = if thorough { &[None, Some(1), Some(8), Some(16), Some(32), Some(64), Some(128)] } else { &[None, Some(8), Some(32), Some(64)] };
    for n in ["int", "uint", "float", "angle", "complex"] {
        for w in ws {
            v.push(TT { name: n, w: *w });
        }
    }
    v.push(TT { name: "bool", w: None });
    v.push(TT { name: "duration", w: None });
    v.push(TT { name: "stretch", w: None });
    v.push(TT { name: "bit", w: None });
    v.push(TT { name: "bit", w: Some(4) });
    v.push(TT { name: "bit", w: Some(8) });
    v
}

/// Literal spelling of a value type, if the literal class exists.
fn literals_for(v: &TT) -> Vec<(&'static str, String)> {
    match (v.name, v.w) {
        ("int", _) => vec![("literal", "5".into()), ("negative-literal", "-5".into())],
        ("float", _) => vec![("literal", "2.5".into()), ("negative-literal", "-2.5".into())],
        ("complex", _) => vec![("literal", "2.5im".into()), ("int-imag-literal", "2im".into()), ("negative-literal", "-2.5im".into()), ("spaced-negative-literal", "- 2.5 im".into())],
        ("bool", _) => vec![("literal", "true".into())],
        ("duration", _) => vec![("literal", "10ns".into())],
        ("bit", Some(n)) => {
            let bits = "01".repeat(n as usize / 2);
            let (a, b) = bits.split_at(bits.len() / 2);
            vec![("literal", format!("\"{bits}\"")), ("underscored-literal", format!("'{a}_{b}'")), ("twice-underscored-literal", format!("\"{a}_{}_{}\"", &b[..1], &b[1..]))]
        }
        _ => vec![],
    }
}

fn kind_rank(n: &str) -> Option<u8> {
    match n {
        "int" | "uint" => Some(0),
        "float" => Some(1),
        "complex" => Some(2),
        _ => None,
    }
}

/// Must the conversion T <- V (value form `form`) be diagnosed according to the statement?
fn must_diagnose(t: &TT, v: &TT, form: &str, value_const: bool) -> Option<&'static str> {
    if t.name == v.name {
        // width narrowing of a non-constant value
        let narrowing = match (t.w, v.w) {
            (Some(a), Some(b)) => b > a,
            (Some(_), None) => true,
            _ => false,
        };
        if narrowing && !value_const && !form.contains("literal") && t.name != "bit" {
            return Some("width-narrowing-of-non-const");
        }
        return None;
    }
    if form == "negative-literal" && t.name == "uint" && v.name == "int" {
        return Some("negative-literal-to-unsigned");
    }
    for special in ["bit", "bool", "duration", "stretch"] {
        if t.name == special || v.name == special {
            if (t.name == "duration" && v.name == "stretch") || (t.name == "stretch" && v.name == "duration") {
                return None;
            }
            return Some("to-or-from-bit-bool-duration");
        }
    }
    if t.name == "angle" || v.name == "angle" {
        return Some("angle-with-non-angle");
    }
    match (kind_rank(t.name), kind_rank(v.name)) {
        (Some(a), Some(b)) if b > a => Some("kind-downwards"),
        _ => None,
    }
}

struct TableCase {
    /// the type written in a source cast that is the whole value (the `cast` form)
    source_cast: Option<Type>,
    key: String,
    text: String,
    target: Type,
    must: Option<&'static str>,
    same_type: bool,
    is_decl: bool,
}

fn table_cases(thorough: bool) -> Vec<TableCase> {
    let types = table_types(thorough);
    let mut out = vec![];
    for t in &types {
        for v in &types {
            if t.name == "stretch" || v.name == "stretch" {
                // stretch values cannot be written as initializers in a meaningful way; only same-type
                // (and the two timing kinds against each other)
                let timing = |n: &str| n == "stretch" || n == "duration";
                if !(timing(t.name) && timing(v.name)) {
                    continue;
                }
            }
            let vs = tt_spelling(v);
            let ts = tt_spelling(t);
            // value forms: (name, prelude, expression, value is const)
            let mut forms: Vec<(String, String, String, bool)> = vec![];
            for (n, l) in literals_for(v) {
                forms.push((n.to_string(), String::new(), l, true));
            }
            forms.push(("variable".into(), format!("{vs} v;"), "v".into(), false));
            let lit0 = literals_for(v).first().map(|x| x.1.clone());
            if let Some(l) = &lit0 {
                forms.push(("const-variable".into(), format!("const {vs} v = {l};"), "v".into(), true));
            }
            if matches!(v.name, "int" | "uint" | "float" | "complex" | "angle") {
                forms.push(("arithmetic".into(), format!("{vs} v; {vs} u;"), "v + u".into(), false));
                forms.push(("arithmetic-mul".into(), format!("{vs} v; {vs} u;"), "(v * u)".into(), false));
                // one constant operand does not make the value constant
                if let Some(l) = &lit0 {
                    forms.push(("arithmetic-const-left".into(), format!("const {vs} v = {l}; {vs} u;"), "(v * u)".into(), false));
                    forms.push(("arithmetic-const-right".into(), format!("const {vs} v = {l}; {vs} u;"), "(u + v)".into(), false));
                }
            }
            if matches!(v.name, "int" | "uint" | "float" | "complex" | "angle" | "bool" | "bit") && !(v.name == "bit" && v.w.is_some()) {
                forms.push(("cast".into(), "int[32] w;".into(), format!("{vs}(w)"), true));
            }
            if matches!(v.name, "int" | "uint" | "float") && matches!(t.name, "int" | "uint" | "float") {
                // a source cast as operand of an operator whose other operand has the target type
                forms.push(("cast-in-arithmetic".into(), format!("int[32] w; {ts} u;"), format!("({vs}(w) + u)"), false));
            }
            if v.name != "stretch" {
                let ret = match &lit0 {
                    Some(l) => format!("return {l};"),
                    None => format!("{vs} r; return r;"),
                };
                forms.push(("call".into(), format!("def f() -> {vs} {{ {ret} }}"), "f()".into(), true));
            }
            if matches!(v.name, "int" | "uint" | "float") {
                // the value is the variable of an enclosing loop (a run-time value)
                forms.push(("loop-variable".into(), String::new(), "v".into(), false));
            }
            if v.name == "bit" {
                match v.w {
                    None => forms.push(("measurement".into(), "qubit q;".into(), "measure q".into(), false)),
                    Some(n) => forms.push(("measurement".into(), format!("qubit[{n}] q;"), "measure q".into(), false)),
                }
            }
            for (fname, prelude, expr, value_const) in forms {
                for (is_decl, konst) in [(true, false), (true, true), (false, false)] {
                    // a const target initialised from a non-constant value: whether that is allowed at
                    // all is not this property's business, so a diagnostic is never "spurious" here;
                    // but the value-type clause and the always-diagnosed classes (narrowing of a
                    // non-constant value, downward kinds) apply to const targets as well
                    let nonconst_into_const = konst && (fname == "variable" || fname == "loop-variable" || fname.starts_with("arith") || fname == "measurement" || fname == "call");
                    let stmt = if is_decl {
                        format!("{}{ts} x = {expr};", if konst { "const " } else { "" })
                    } else {
                        // assignment: parenthesise a top-level binary expression (known finding C04)
                        let e = if expr.contains(" + ") { format!("({expr})") } else { expr.clone() };
                        format!("{ts} x; x = {e};")
                    };
                    let text = if fname == "loop-variable" {
                        let iter = if v.name == "float" { "{1.5, 2.5}" } else { "[0:3]" };
                        format!("for {vs} v in {iter} {{ {stmt} }}")
                    } else {
                        format!("{prelude}\n{stmt}")
                    };
                    // (for the cast-in-arithmetic form the value has the common type of both
                    // operands: only the presence of the cast node and the value-type clause are judged)
                    let must = if fname == "cast-in-arithmetic" { None } else { must_diagnose(t, v, &fname, value_const) };
                    // a numeric literal has no written width: "same type" is only meaningful for the
                    // literal classes whose type is exact (bool, duration, bit string)
                    let same = t == v && !(fname.contains("literal") && matches!(v.name, "int" | "float" | "complex")) && !nonconst_into_const;
                    let wc = match (t.w, v.w) {
                        (None, None) => "none<-none",
                        (Some(_), None) => "w<-none",
                        (None, Some(_)) => "none<-w",
                        (Some(a), Some(b)) if a == b => "w<-same",
                        (Some(a), Some(b)) if a > b => "w<-narrower",
                        _ => "w<-wider",
                    };
                    if is_decl && !konst && fname != "loop-variable" {
                        // the same declaration when the name is already bound in this scope: it is
                        // reported as a redeclaration, and its initializer is judged all the same
                        out.push(TableCase {
                            source_cast: if fname == "cast" || fname == "cast-in-arithmetic" { Some(tt_type(v, true)) } else { None },
                            key: if fname.contains("literal") { format!("decl:{}<-{}:{fname}:redeclared", t.name, v.name) } else { format!("decl:{}<-{}:{fname}:{wc}:redeclared", t.name, v.name) },
                            text: format!("{prelude}\nbool x;\n{stmt}"),
                            target: tt_type(t, konst),
                            must,
                            same_type: same,
                            is_decl,
                        });
                    }
                    out.push(TableCase {
                        source_cast: if fname == "cast" || fname == "cast-in-arithmetic" { Some(tt_type(v, true)) } else { None },
                        // a literal has no written width: its key does not carry the width class
                        key: if fname.contains("literal") {
                            format!("{}:{}<-{}:{fname}", if is_decl { "decl" } else { "assign" }, t.name, v.name)
                        } else {
                            format!("{}:{}<-{}:{fname}:{wc}{}", if is_decl { "decl" } else { "assign" }, t.name, v.name, if konst { ":const-target" } else { "" })
                        },
                        text,
                        target: tt_type(t, konst),
                        must,
                        same_type: same,
                        is_decl,
                    });
                }
            }
        }
    }
    // a subroutine without a return type has no value: using its call as a value is never
    // accepted silently, whatever the target
    for t in &types {
        if t.name == "stretch" {
            continue;
        }
        let ts = tt_spelling(t);
        for (is_decl, with_param) in [(true, false), (true, true), (false, false), (false, true)] {
            let (prelude, call) = if with_param { ("def p(int[32] n) { n = 0; }", "p(3)") } else { ("def p() { }", "p()") };
            let stmt = if is_decl { format!("{ts} x = {call};") } else { format!("{ts} x; x = {call};") };
            out.push(TableCase {
                source_cast: None,
                key: format!("{}:{}<-void-call{}", if is_decl { "decl" } else { "assign" }, t.name, if with_param { ":with-parameter" } else { "" }),
                text: format!("{prelude}\n{stmt}"),
                target: tt_type(t, false),
                must: Some("a call of a subroutine without return type used as a value"),
                same_type: false,
                is_decl,
            });
        }
    }
    out
}

fn check_table_case(tc: &TableCase, out: &mut Vec<Failure>) -> bool {
    if !clean_parse(&tc.text) {
        return false;
    }
    let Ok(res) = analyze(&tc.text) else { return false };
    check_typed_graph_with(&tc.text, &res, tc.key.contains(":cast-in-arithmetic"), out);
    let (n_type_diags, kinds) = type_diag_count(&res);
    let detail = |e: String, a: String| json!({"input": {"source": tc.text}, "expected": e, "actual": a, "diagnostics": kinds});
    // the last statement of the program (of the loop body for the loop-variable form)
    let last = match res.program().stmts().last() {
        Some(asg::Stmt::ForStmt(f)) => f.loop_body().statements().last(),
        other => other,
    };
    let value: Option<&asg::TExpr> = match last {
        Some(asg::Stmt::DeclareClassical(d)) if tc.is_decl => d.initializer(),
        Some(asg::Stmt::Assignment(a)) if !tc.is_decl => Some(a.rvalue()),
        _ => None,
    };
    let Some(value) = value else {
        out.push(Failure::new(format!("C08:table:statement-missing:{}", tc.key), detail("declaration / assignment as last statement".into(), format!("{:?}", last.map(crate::semcheck::variant_name)))));
        return true;
    };
    if n_type_diags == 0 {
        // accepted: the stored value must have the target type up to const-ness; if it is a Cast, to exactly the target
        let vt = value.get_type();
        let ok = strip_const(vt) == strip_const(&tc.target);
        if !ok {
            out.push(Failure::new(format!("C08:table:accepted-without-cast-or-diagnostic:{}", tc.key), detail(format!("value of type {:?} (up to const) or a type diagnostic", tc.target), format!("{vt:?}"))));
        } else if let asg::Expr::Cast(cast) = value.expression() {
            if !tc.is_decl || cast.get_type() == &tc.target || strip_const(cast.get_type()) == strip_const(&tc.target) {
                // fine
            }
        }
        // a cast written in the source is a cast node with its own target type, whatever
        // conversion is applied on top of it
        if let Some(ct) = &tc.source_cast {
            let mut e = value;
            let mut found = false;
            loop {
                match e.expression() {
                    asg::Expr::Cast(c) => {
                        if strip_const(c.get_type()) == strip_const(ct) {
                            found = true;
                            break;
                        }
                        e = c.operand();
                    }
                    // the cast-in-arithmetic form: the cast is the left operand
                    asg::Expr::BinaryExpr(b) => e = b.left(),
                    _ => break,
                }
            }
            if !found {
                out.push(Failure::new(format!("C08:table:source-cast-missing:{}", tc.key), detail(format!("a cast node of type {ct:?} (up to const)"), format!("{:?}", value.expression()).chars().take(300).collect())));
            }
        }
        if let Some(why) = tc.must {
            out.push(Failure::new(format!("C08:table:always-diagnosed-class-accepted:{why}:{}", tc.key), detail("a type diagnostic".into(), "none".into())));
        }
    } else if tc.same_type && tc.must.is_none() {
        out.push(Failure::new(format!("C08:table:diagnostic-on-same-type:{}", tc.key), detail("no type diagnostic".into(), format!("{n_type_diags}"))));
    }
    true
}

pub fn replay_c08(v: &serde_json::Value) -> Result<Vec<Failure>, String> {
    let text = v["input"]["source"].as_str().ok_or("no input.source")?;
    let mut out = vec![];
    let key = v["key"].as_str().unwrap_or("");
    if let Some(k) = key.split(":table:").nth(1) {
        // table case: re-derive from the key
        let k = k.splitn(2, ':').nth(1).unwrap_or(k);
        for tc in table_cases(true) {
            if tc.text == text && (k.ends_with(&tc.key) || key.ends_with(&tc.key)) {
                check_table_case(&tc, &mut out);
                return Ok(out);
            }
        }
    }
    if clean_parse(text) {
        if let Ok(res) = analyze(text) {
            check_typed_graph(text, &res, &mut out);
        }
    }
    Ok(out)
}

pub fn run_c08(ctx: &RunCtx) {
    ctx.set_rule("decision table: every ordered pair (target type, value type) over 9 base types x widths {none,8,32,64} (thorough: +1,16,128) x const/non-const target, for declarations and assignments, with the value written as literal, negative literal, variable, const variable, arithmetic expression, cast, call and measurement; plus the typed graphs of generated programs (semantic generator). oracle: local typing rules over the graph (identifier = symbol type, literal class types marked const, cast = target, measurement = bit shape of operand, arithmetic = common type with operands of that type or cast to it) and, for the last statement, value type = target up to const-ness or a type diagnostic; the always-diagnosed classes must be diagnosed; same-type programs carry no type diagnostic. non-trivial = target and value differ in base type, width or const-ness; distinct by (form, target, value, value form)");
    ctx.assume("the promotion function itself is judged by C20; here the implementation's implicit_cast_type is the yard-stick for 'common type'");
    let cases = table_cases(!ctx.quick());
    ctx.par_units(cases.len(), |i, st| {
        let tc = &cases[i];
        let mut rep = CaseReport::default();
        let judged = check_table_case(tc, &mut rep.failures);
        rep.discarded = !judged;
        rep.class(if tc.is_decl { "table-decl" } else { "table-assign" });
        if !tc.same_type {
            rep.nontrivial = Some(fnv64(tc.text.as_bytes()));
        }
        if i % 401 == 0 {
            rep.sample = Some(tc.text.clone());
        }
        ctx.eval_local("C08", st, rep);
    });
    ctx.mark_exhaustive(format!("decision table: {} (target, value, form, statement) programs", cases.len()));
    // every arithmetic operator over every ordered pair of operand types
    {
        let types = table_types(!ctx.quick());
        let ops = ["+", "-", "*", "/", "%", "&", "|", "^", "<<", ">>"];
        let mut progs: Vec<String> = vec![];
        for a in &types {
            for b in &types {
                for op in ops {
                    progs.push(format!("{} v; {} u;\n(v {op} u);", tt_spelling(a), tt_spelling(b)));
                    progs.push(format!("const {} v = {}; {} u;\n(v {op} u);", tt_spelling(a), literals_for(a).first().map(|l| l.1.clone()).unwrap_or("w0".into()), tt_spelling(b)).replace("= w0;", "= v0;"));
                }
            }
        }
        let progs: Vec<String> = progs.into_iter().filter(|p| !p.contains("= v0;")).collect();
        ctx.par_units(progs.len(), |i, st| {
            let text = &progs[i];
            let mut rep = CaseReport::default();
            if clean_parse(text) {
                match analyze(text) {
                    Ok(res) => {
                        check_typed_graph(text, &res, &mut rep.failures);
                        rep.nontrivial = Some(fnv64(text.as_bytes()));
                    }
                    Err(_) => rep.discarded = true,
                }
            } else {
                rep.discarded = true;
            }
            rep.class("arith-matrix");
            if i % 997 == 0 {
                rep.sample = Some(text.clone());
            }
            ctx.eval_local("C08", st, rep);
        });
        ctx.mark_exhaustive(format!("arithmetic matrix: {} (operator, left type, right type) programs", progs.len()));
    }
    // typed graphs of generated programs
    let n = ctx.pick(300_000u64, 5_000_000u64);
    for (name, profile) in [("plain", crate::semgen::Profile::plain()), ("faulty", crate::semgen::Profile::faulty())] {
        ctx.random(&format!("typed-graph-{name}"), n, 1200, |src| {
            let prog = crate::semgen::gen_program(src, &profile);
            let pr = crate::synprops::print_program(src, &prog, crate::layout::Style::Spaced);
            let mut rep = CaseReport::default();
            if !clean_parse(&pr.text) {
                rep.discarded = true;
                return rep;
            }
            match analyze(&pr.text) {
                Ok(res) => {
                    let n = check_typed_graph(&pr.text, &res, &mut rep.failures);
                    if n >= 4 {
                        rep.nontrivial = Some(fnv64(pr.text.as_bytes()));
                    }
                }
                Err(_) => rep.discarded = true,
            }
            rep.class(name);
            rep.sample = Some(pr.text);
            rep
        });
    }
}

// ------------------------------------------------------------------------------------------
// C09 — declared symbols carry exactly the declared type
// ------------------------------------------------------------------------------------------

pub const WIDTHS: &[u128] = &[
    1, 2, 7, 8, 31, 32, 63, 64, 65536, 1 << 31, (1 << 32) - 1, 1 << 32, (1 << 32) + 1, 1 << 33, 1 << 64, u128::MAX,
];

fn spell(w: u128, radix: usize) -> String {
    match radix {
        0 => format!("{w}"),
        1 => format!("0x{w:X}"),
        2 => format!("0b{w:b}"),
        3 => format!("0o{w:o}"),
        _ => {
            // decimal with underscores
            let s = format!("{w}");
            let mut o = String::new();
            for (i, ch) in s.chars().enumerate() {
                if i > 0 && (s.len() - i) % 3 == 0 {
                    o.push('_');
                }
                o.push(ch);
            }
            o
        }
    }
}

struct DeclCase {
    key: String,
    text: String,
    /// expected type as a function of the width (None = the width does not fit)
    expect: Option<Type>,
    fits: bool,
    name: &'static str,
}

fn decl_forms(wsp: &str, w: u128, via_const: Option<&str>) -> Vec<DeclCase> {
    let fits = w <= u32::MAX as u128;
    let w32 = if fits { Some(w as u32) } else { None };
    let wu = w as usize;
    let pre = match via_const {
        Some(cty) => format!("const {cty} n = {wsp};\n"),
        None => String::new(),
    };
    let d = if via_const.is_some() { "n".to_string() } else { wsp.to_string() };
    let mut v: Vec<DeclCase> = vec![];
    let mut push = |key: &str, text: String, expect: Option<Type>, name: &'static str| {
        v.push(DeclCase { key: format!("{key}{}", if via_const.is_some() { ":const-ident" } else { "" }), text: format!("{pre}{text}"), expect: if fits { expect } else { None }, fits, name });
    };
    let scalar: &[(&str, fn(Option<u32>, IsConst) -> Type)] = &[
        ("int", |w, k| Type::Int(w, k)),
        ("uint", |w, k| Type::UInt(w, k)),
        ("float", |w, k| Type::Float(w, k)),
        ("angle", |w, k| Type::Angle(w, k)),
    ];
    for (n, f) in scalar {
        push(&format!("classical:{n}"), format!("{n}[{d}] v;"), Some(f(w32, IsConst::False)), "v");
        push(&format!("const:{n}"), format!("const {n}[{d}] v = {};", if *n == "angle" { "v0" } else { "1" }).replace("v0", "angle(1)"), Some(f(w32, IsConst::True)), "v");
        push(&format!("input:{n}"), format!("input {n}[{d}] v;"), Some(f(w32, IsConst::False)), "v");
        push(&format!("output:{n}"), format!("output {n}[{d}] v;"), Some(f(w32, IsConst::False)), "v");
        push(&format!("def-param:{n}"), format!("def f({n}[{d}] v) {{ }}"), Some(f(w32, IsConst::False)), "v");
        push(&format!("in-if:{n}"), format!("if (true) {{ {n}[{d}] v; }}"), Some(f(w32, IsConst::False)), "v");
        push(&format!("in-def:{n}"), format!("def g() {{ {n}[{d}] v; }}"), Some(f(w32, IsConst::False)), "v");
    }
    push("for-var:int", format!("for int[{d}] v in [0:1] {{ }}"), Some(Type::Int(w32, IsConst::False)), "v");
    push("for-var:uint", format!("for uint[{d}] v in {{1, 2}} {{ }}"), Some(Type::UInt(w32, IsConst::False)), "v");
    push("complex", format!("complex[float[{d}]] v;"), Some(Type::Complex(w32, IsConst::False)), "v");
    push("bit-register", format!("bit[{d}] v;"), Some(Type::BitArray(ArrayDims::D1(wu), IsConst::False)), "v");
    push("const-bit-register", format!("bit[{d}] u; const bit[{d}] v = u;"), Some(Type::BitArray(ArrayDims::D1(wu), IsConst::True)), "v");
    push("qubit-register", format!("qubit[{d}] v;"), Some(Type::QubitArray(ArrayDims::D1(wu))), "v");
    push("def-qubit-param", format!("def f(qubit[{d}] v) {{ }}"), Some(Type::QubitArray(ArrayDims::D1(wu))), "v");
    push(
        "def-return",
        format!("def v() -> int[{d}] {{ return 1; }}"),
        Some(Type::SubroutineDef(SubroutineDef { num_params: 0, return_type: Box::new(Type::Int(w32, IsConst::True)) })),
        "v",
    );
    v
}

/// Const-identifier designators next to a *different* constant of the same name in a scope that
/// the designator must not see (or, for the `inner-*` forms, must see): the width recorded is the
/// one of the binding visible where the designator is written.
fn shadow_forms(wsp: &str, w: u128) -> Vec<DeclCase> {
    let fits = w <= u32::MAX as u128;
    let w32 = if fits { Some(w as u32) } else { None };
    let other: u32 = if w == 5 { 6 } else { 5 };
    let mut v: Vec<DeclCase> = vec![];
    let mut push = |key: &str, text: String, expect: Type| {
        v.push(DeclCase { key: format!("shadow:{key}"), text, expect: if fits { Some(expect) } else { None }, fits, name: "v" });
    };
    let sub = |np: usize, w: Option<u32>| Type::SubroutineDef(SubroutineDef { num_params: np, return_type: Box::new(Type::Int(w, IsConst::True)) });
    let g = format!("const int n = {wsp};\n");
    push("def-return:body-const", format!("{g}def v() -> int[n] {{ const int n = {other}; return 1; }}"), sub(0, w32));
    push("def-return:body-variable", format!("{g}def v() -> int[n] {{ int n = 2; return 1; }}"), sub(0, w32));
    push("def-param:body-const", format!("{g}def f(int[n] v) {{ const int n = {other}; }}"), Type::Int(w32, IsConst::False));
    push("after-block", format!("{g}if (true) {{ const int n = {other}; }}\nint[n] v;"), Type::Int(w32, IsConst::False));
    push("after-def", format!("{g}def f() {{ const int n = {other}; }}\nuint[n] v;"), Type::UInt(w32, IsConst::False));
    push("after-gate", format!("{g}gate g q {{ const int n = {other}; }}\nqubit[n] v;"), Type::QubitArray(ArrayDims::D1(w as usize)));
    push("after-for", format!("{g}for int n in [0:1] {{ }}\nbit[n] v;"), Type::BitArray(ArrayDims::D1(w as usize), IsConst::False));
    push("for-var:body-const", format!("{g}for int[n] v in [0:1] {{ const int n = {other}; }}"), Type::Int(w32, IsConst::False));
    push("inner-block", format!("const int n = {other};\nif (true) {{ const int n = {wsp}; float[n] v; }}"), Type::Float(w32, IsConst::False));
    push("inner-def", format!("const int n = {other};\ndef f() {{ const int n = {wsp}; angle[n] v; }}"), Type::Angle(w32, IsConst::False));
    // the shadowing binding sits in an intermediate scope, the designator one or two blocks deeper
    push("two-levels:def-then-if", format!("const int n = {other};\ndef f() {{ const int n = {wsp}; if (true) {{ bit[n] v; }} }}"), Type::BitArray(ArrayDims::D1(w as usize), IsConst::False));
    push("two-levels:if-then-while", format!("const int n = {other};\nif (true) {{ const int n = {wsp}; while (false) {{ int[n] v; }} }}"), Type::Int(w32, IsConst::False));
    push("two-levels:for-then-if-then-if", format!("const int n = {other};\nfor int i in [0:1] {{ const int n = {wsp}; if (true) {{ if (true) {{ uint[n] v; }} }} }}"), Type::UInt(w32, IsConst::False));
    push("two-levels:gate-then-if", format!("const int n = {other};\ndef g() {{ if (true) {{ const int n = {wsp}; switch (1) {{ case 1 {{ float[n] v; }} }} }} }}"), Type::Float(w32, IsConst::False));
    // a binding in one branch is not visible in its sibling
    push("sibling:then-else", format!("{g}if (true) {{ const int n = {other}; }} else {{ bit[n] v; }}"), Type::BitArray(ArrayDims::D1(w as usize), IsConst::False));
    push("sibling:then-else-single", format!("{g}if (true) {{ const int n = {other}; }} else int[n] v;"), Type::Int(w32, IsConst::False));
    push("sibling:case-case", format!("{g}switch (1) {{ case 1 {{ const int n = {other}; }} case 2 {{ uint[n] v; }} }}"), Type::UInt(w32, IsConst::False));
    push("sibling:case-default", format!("{g}switch (1) {{ case 1 {{ const int n = {other}; }} default {{ float[n] v; }} }}"), Type::Float(w32, IsConst::False));
    push("sibling:else-if-chain", format!("{g}if (true) {{ const int n = {other}; }} else if (false) {{ const int n = 3; }} else {{ angle[n] v; }}"), Type::Angle(w32, IsConst::False));
    push("inner-while", format!("const int n = {other};\nwhile (false) {{ const int n = {wsp}; int[n] v; }}"), Type::Int(w32, IsConst::False));
    v
}

fn check_decl_case(dc: &DeclCase, out: &mut Vec<Failure>) -> bool {
    if !clean_parse(&dc.text) {
        return false;
    }
    let Ok(res) = analyze(&dc.text) else { return false };
    let mut errs = vec![];
    all_semantic_errors(res.semantic_errors(), &mut errs);
    let kinds: Vec<String> = errs.iter().map(|e| e.0.clone()).collect();
    let syms = res.symbol_table().verif_symbols();
    let found = syms.iter().rev().find(|s| s.name() == dc.name);
    let detail = |e: String, a: String| json!({"input": {"source": dc.text}, "expected": e, "actual": a, "diagnostics": kinds});
    match (&dc.expect, found) {
        (Some(t), Some(s)) => {
            let actual = s.symbol_type();
            let same = if dc.key.starts_with("def-return") { strip_const(actual) == strip_const(t) } else { actual == t };
            if !same {
                out.push(Failure::new(format!("C09:type:{}", dc.key), detail(format!("{t:?}"), format!("{actual:?}"))));
            }
            // a fitting width written as a literal is not diagnosed as a designator problem
            if kinds.iter().any(|k| k == "InvalidDesignatorError" || k == "ConstIntegerError") {
                out.push(Failure::new(format!("C09:spurious-designator-diagnostic:{}", dc.key), detail("no designator diagnostic".into(), format!("{kinds:?}"))));
            }
        }
        (Some(_), None) => out.push(Failure::new(format!("C09:symbol-missing:{}", dc.key), detail("symbol".into(), "none".into()))),
        (None, found) => {
            // the width does not fit: must be diagnosed; if not diagnosed the recorded number must equal the written one (impossible here)
            if errs.is_empty() {
                let a = found.map(|s| format!("{:?}", s.symbol_type())).unwrap_or("no symbol".into());
                out.push(Failure::new(format!("C09:oversized-width-not-diagnosed:{}", dc.key), detail("a semantic diagnostic".into(), a)));
            }
        }
    }
    let _ = dc.fits;
    true
}

fn gate_listing_case(np: usize, nq: usize, with_std: bool, out: &mut Vec<Failure>) -> String {
    let ps: Vec<String> = (0..np).map(|i| format!("a{i}")).collect();
    let qs: Vec<String> = (0..nq).map(|i| format!("q{i}")).collect();
    let text = format!(
        "{}gate mine{} {} {{ }}\ngate other q {{ }}\nint notagate;\ndef sub(int a) {{ }}",
        if with_std { "include \"stdgates.inc\";\n" } else { "" },
        if np > 0 { format!("({})", ps.join(", ")) } else { String::new() },
        qs.join(", ")
    );
    if let Ok(res) = analyze(&text) {
        let mut got: Vec<(String, usize, usize)> = res.symbol_table().gates().map(|(n, _, a, b)| (n.to_string(), a, b)).collect();
        let mut want: Vec<(String, usize, usize)> = vec![("mine".into(), np, nq), ("other".into(), 0, 1)];
        if with_std {
            want.extend(STD_GATES.iter().map(|(n, a, b)| (n.to_string(), *a, *b)));
        }
        got.sort();
        want.sort();
        if got != want {
            out.push(Failure::new(
                format!("C09:gate-listing:{}", if with_std { "with-stdgates" } else { "user-only" }),
                json!({"input": {"source": text}, "expected": format!("{want:?}"), "actual": format!("{got:?}")}),
            ));
        }
        // parameter symbols
        use oq3_semantics::symbols::SymbolType as _;
        for s in res.symbol_table().verif_symbols() {
            if s.name().starts_with('a') && s.name().len() == 2 && s.name() != "a" && ps.contains(&s.name().to_string()) && s.symbol_type() != &Type::Angle(None, IsConst::True) {
                out.push(Failure::new("C09:gate-parameter-type", json!({"input": {"source": text}, "actual": format!("{:?}", s.symbol_type())})));
            }
            if qs.contains(&s.name().to_string()) && s.symbol_type() != &Type::Qubit {
                out.push(Failure::new("C09:gate-qubit-type", json!({"input": {"source": text}, "actual": format!("{:?}", s.symbol_type())})));
            }
            if s.name() == "mine" && s.symbol_type() != &Type::Gate(np, nq) {
                out.push(Failure::new("C09:gate-type", json!({"input": {"source": text}, "expected": format!("Gate({np},{nq})"), "actual": format!("{:?}", s.symbol_type())})));
            }
        }
    }
    text
}

/// Signatures in which a name occurs twice: the duplicate is reported, the recorded arity and
/// parameter count are the written ones all the same.
fn dup_signature_cases() -> Vec<(String, Vec<(String, usize, usize)>, Option<(String, usize)>)> {
    vec![
        ("gate dupa(a, b, a) q { }".into(), vec![("dupa".into(), 3, 1)], None),
        ("gate dupq(t) q, r, q, s { }".into(), vec![("dupq".into(), 1, 4)], None),
        ("gate dupm(a, b) a, c { }".into(), vec![("dupm".into(), 2, 2)], None),
        ("gate dup2(a, a, a, a) q, q { }".into(), vec![("dup2".into(), 4, 2)], None),
        ("def dupd(int[8] a, bit b, float[32] a, qubit q) -> bit { }".into(), vec![], Some(("dupd".into(), 4))),
        ("def dupe(int a, int a) { }".into(), vec![], Some(("dupe".into(), 2))),
    ]
}

fn dup_signature_case(text: &str, gates: &[(String, usize, usize)], def: &Option<(String, usize)>, out: &mut Vec<Failure>) {
    if !clean_parse(text) {
        return;
    }
    if let Ok(res) = analyze(text) {
        let got: Vec<(String, usize, usize)> = res.symbol_table().gates().map(|(n, _, a, b)| (n.to_string(), a, b)).filter(|g| g.0 != "U").collect();
        if &got != gates {
            out.push(Failure::new("C09:gate-listing:duplicate-parameter-name", json!({"input": {"source": text}, "expected": format!("{gates:?}"), "actual": format!("{got:?}")})));
        }
        if let Some((name, n)) = def {
            let found = res.symbol_table().verif_symbols().iter().find(|s| s.name() == name).map(|s| s.symbol_type().clone());
            match found {
                Some(Type::SubroutineDef(d)) if d.num_params == *n => {}
                other => out.push(Failure::new("C09:subroutine-parameter-count:duplicate-parameter-name", json!({"input": {"source": text}, "expected": n, "actual": format!("{other:?}")}))),
            }
        }
    }
}

/// A user gate that takes the name of a standard-library gate before the include: the first
/// binding stays, the include reports the clash, and every other library gate is still listed.
fn gate_clash_case(clash: &[&str], out: &mut Vec<Failure>) -> String {
    let mut text = String::new();
    for n in clash {
        text.push_str(&format!("gate {n}(p0) a, b, c {{ }}\n"));
    }
    text.push_str("include \"stdgates.inc\";\n");
    if let Ok(res) = analyze(&text) {
        let mut got: Vec<(String, usize, usize)> = res.symbol_table().gates().map(|(n, _, a, b)| (n.to_string(), a, b)).collect();
        let mut want: Vec<(String, usize, usize)> = STD_GATES.iter().map(|(n, a, b)| if clash.contains(n) { (n.to_string(), 1, 3) } else { (n.to_string(), *a, *b) }).collect();
        got.sort();
        want.sort();
        if got != want {
            let missing: Vec<&String> = want.iter().filter(|w| !got.contains(w)).map(|w| &w.0).collect();
            let extra: Vec<&(String, usize, usize)> = got.iter().filter(|g| !want.contains(g)).collect();
            out.push(Failure::new(
                format!("C09:gate-listing:user-gate-named-like-a-library-gate:{}", if clash.len() == 1 { "one" } else { "several" }),
                json!({"input": {"source": text}, "expected": "all standard gates, the clashing names with the user's arity (1,3)", "actual": format!("missing {missing:?}, unexpected {extra:?}")}),
            ));
        }
        let mut errs = vec![];
        all_semantic_errors(res.semantic_errors(), &mut errs);
        let n_redecl = errs.iter().filter(|e| e.0.starts_with("RedeclarationError")).count();
        if n_redecl != clash.len() {
            out.push(Failure::new("C09:gate-listing:clash-not-diagnosed-once-per-name", json!({"input": {"source": text}, "expected": clash.len(), "actual": n_redecl})));
        }
    }
    text
}

/// One program with a designator that is not a constant non-negative integer: it must be
/// diagnosed and no number may be recorded. Returns false if the analysis crashed.
fn check_bad_designator(name: &str, text: &str, out: &mut Vec<Failure>) -> bool {
    let Ok(res) = analyze(text) else { return false };
    let mut errs = vec![];
    all_semantic_errors(res.semantic_errors(), &mut errs);
    if errs.is_empty() {
        let found = res.symbol_table().verif_symbols().iter().rev().find(|s| s.name() == "v").map(|s| format!("{:?}", s.symbol_type()));
        out.push(Failure::new(format!("C09:invalid-designator-not-diagnosed:{name}"), json!({"input": {"source": text}, "expected": "a semantic diagnostic", "actual": found})));
    }
    // if a width was recorded nonetheless, it must not be an invented number
    if let Some(s) = res.symbol_table().verif_symbols().iter().rev().find(|s| s.name() == "v") {
        if let Some(w) = s.symbol_type().width() {
            out.push(Failure::new(format!("C09:invalid-designator-replaced-by-number:{name}"), json!({"input": {"source": text}, "actual": w})));
        } else if matches!(s.symbol_type(), Type::BitArray(..) | Type::QubitArray(..)) {
            out.push(Failure::new(format!("C09:invalid-designator-replaced-by-number:{name}"), json!({"input": {"source": text}, "actual": format!("{:?}", s.symbol_type())})));
        }
    }
    true
}

pub fn replay_c09(v: &serde_json::Value) -> Result<Vec<Failure>, String> {
    let text = v["input"]["source"].as_str().ok_or("no input.source")?;
    let key = v["key"].as_str().unwrap_or("");
    let mut out = vec![];
    if key.contains(":invalid-designator-") {
        let name = key.rsplit(':').next().unwrap_or("");
        if clean_parse(text) {
            check_bad_designator(name, text, &mut out);
        }
        return Ok(out);
    }
    // re-derive the case from the enumeration (quick and thorough widths)
    for w in WIDTHS {
        for r in 0..5 {
            for via in [None, Some("int"), Some("uint[64]"), Some("int[128]")] {
                for dc in decl_forms(&spell(*w, r), *w, via) {
                    if dc.text == text && key.ends_with(&dc.key) {
                        check_decl_case(&dc, &mut out);
                        return Ok(out);
                    }
                }
            }
            for dc in shadow_forms(&spell(*w, r), *w) {
                if dc.text == text && key.ends_with(&dc.key) {
                    check_decl_case(&dc, &mut out);
                    return Ok(out);
                }
            }
        }
    }
    for np in 0..5 {
        for nq in 1..5 {
            for std in [false, true] {
                let mut o = vec![];
                if gate_listing_case(np, nq, std, &mut o) == text {
                    return Ok(o);
                }
            }
        }
    }
    for cl in clash_sets() {
        let mut o = vec![];
        let names: Vec<&str> = cl.iter().map(|s| s.as_str()).collect();
        if gate_clash_case(&names, &mut o) == text {
            return Ok(o);
        }
    }
    for (t, gates, def) in dup_signature_cases() {
        if t == text {
            let mut o = vec![];
            dup_signature_case(&t, &gates, &def, &mut o);
            return Ok(o);
        }
    }
    // otherwise: the generic joint walk cannot be replayed from text
    Err("case not found in the enumeration".into())
}

fn clash_sets() -> Vec<Vec<String>> {
    let mut v: Vec<Vec<String>> = STD_GATES.iter().map(|(n, _, _)| vec![n.to_string()]).collect();
    // several clashes, in and against library order, within one arity group and across groups
    for set in [vec!["x", "h"], vec!["h", "x"], vec!["id", "cx", "cswap"], vec!["u3", "p", "y"], vec!["cu", "ccx"], vec!["CX", "swap", "ch", "cz"]] {
        v.push(set.into_iter().map(|s| s.to_string()).collect());
    }
    v
}

pub fn run_c09(ctx: &RunCtx) {
    ctx.set_rule("every declaration form (classical, const, input/output, def parameter, for variable, complex, bit register, qubit register, def qubit parameter, def return type; at global scope, in an if block, in a def body) x scalar types x widths {1,2,7,8,31,32,63,64,2^16,2^31,2^32-1,2^32,2^32+1,2^33,2^64,2^128-1} written as a literal in 5 spellings and through a const identifier of 3 types, and through a const identifier next to a different same-named binding in a parameter list, body, earlier block, def, gate or for loop (11 shadowing forms; a parameter of the same name as the constant is not judged: whether a signature sees earlier parameters is not stated by the property); negative / non-constant / undeclared / expression designators; gate signatures with 0-4 parameters and 1-4 qubits with and without stdgates; a user gate named like each of the 32 standard gates (and 6 sets of several) declared before the include; random widths across [1, 2^33] (thorough). oracle: the symbol's type equals the written type; a width that does not fit is diagnosed and never silently replaced; gates() lists exactly user + standard gates with their arities. non-trivial = a designator is present or the symbol is a gate/def; distinct by (form, type, width spelling, scope)");
    ctx.assume("the return type of a subroutine is compared up to const-ness; alias symbols are not judged");
    let mut cases: Vec<DeclCase> = vec![];
    for w in WIDTHS {
        for r in 0..5 {
            cases.extend(decl_forms(&spell(*w, r), *w, None));
        }
        for via in ["int", "uint[64]", "int[128]"] {
            if *w > i128::MAX as u128 && via != "uint[64]" {
                // the const itself would not be representable; still a valid case (must be diagnosed)
            }
            cases.extend(decl_forms(&spell(*w, 0), *w, Some(via)));
        }
        cases.extend(shadow_forms(&spell(*w, 0), *w));
    }
    ctx.par_units(cases.len(), |i, st| {
        let dc = &cases[i];
        let mut rep = CaseReport::default();
        let judged = check_decl_case(dc, &mut rep.failures);
        rep.discarded = !judged;
        rep.class(if dc.fits { "width-fits" } else { "width-too-large" });
        rep.nontrivial = Some(fnv64(dc.text.as_bytes()));
        if i % 503 == 0 {
            rep.sample = Some(dc.text.clone());
        }
        ctx.eval_local("C09", st, rep);
    });
    ctx.mark_exhaustive(format!("{} declaration programs (forms x types x 16 widths x spellings)", cases.len()));
    // invalid designators must be diagnosed (and never silently replaced by a number)
    let bad: Vec<(&str, String)> = vec![
        ("negative", "int[-1] v;".into()),
        ("negative-const", "const int n = -4; int[n] v;".into()),
        ("non-const-identifier", "int m = 3; int[m] v;".into()),
        ("undeclared-identifier", "int[nope] v;".into()),
        ("expression", "const int n = 4; int[n + 1] v;".into()),
        ("float-const", "const float n = 4.0; int[n] v;".into()),
        ("bool-const", "const bool n = true; int[n] v;".into()),
        ("qubit-negative", "qubit[-2] v;".into()),
        ("qubit-non-const", "int m = 3; qubit[m] v;".into()),
        ("bit-non-const", "int m = 3; bit[m] v;".into()),
        ("non-const-int128-literal-init", "int[128] m = 4; int[m] v;".into()),
        ("non-const-int128-bit", "int[128] m = 4; m = 7; bit[m] v;".into()),
        ("non-const-int128-qubit", "int[128] m = 4; qubit[m] v;".into()),
        ("non-const-uint128", "uint[128] m = 4; uint[m] v;".into()),
        ("non-const-int64", "int[64] m = 4; float[m] v;".into()),
        ("non-const-uint", "uint m = 4; angle[m] v;".into()),
        ("non-const-def-param", "int[128] m = 4; def f(int[m] v) { }".into()),
        ("non-const-def-return", "int[128] m = 4; def v() -> int[m] { return 1; }".into()),
        ("non-const-loop-variable", "for int[128] m in [1:4] { int[m] v; }".into()),
        ("non-const-parameter", "def f(int[128] m) { int[m] v; }".into()),
        ("input-variable", "input int[128] m; int[m] v;".into()),
        ("gate-parameter-as-width", "gate g(n) q { int[n] v; }".into()),
        ("call", "def f() -> int { return 1; } int[f()] v;".into()),
        ("empty-tuple", "int[()] v;".into()),
        ("empty-tuple-bit", "bit[()] v;".into()),
        ("empty-tuple-qubit", "qubit[()] v;".into()),
        ("empty-tuple-parameter", "def f(uint[()] v) { }".into()),
        ("empty-tuple-complex", "complex[float[()]] v;".into()),
        ("nested-empty-tuple", "float[(())] v;".into()),
    ];
    // negative constants of every integer type, in every kind of designator
    let mut bad = bad;
    let neg_names: Vec<String> = ["int", "int[8]", "int[32]", "int[64]", "int[128]", "uint[16]", "uint[128]"]
        .iter()
        .flat_map(|cty| ["-1", "-4", "-8", "- 16"].iter().map(move |val| format!("const {cty} n = {val};")))
        .collect();
    for pre in &neg_names {
        for use_ in ["int[n] v;", "uint[n] v;", "float[n] v;", "angle[n] v;", "bit[n] v;", "qubit[n] v;", "def f(int[n] v) { }", "def v() -> int[n] { return 1; }", "complex[float[n]] v;"] {
            bad.push(("negative-const-matrix", format!("{pre} {use_}")));
        }
    }
    {
        let mut st = Stats::default();
        for (name, text) in &bad {
            let mut rep = CaseReport::default();
            if clean_parse(text) {
                if !check_bad_designator(name, text, &mut rep.failures) {
                    rep.discarded = true;
                }
            } else {
                rep.discarded = true;
            }
            rep.class("invalid-designator");
            rep.nontrivial = Some(fnv64(text.as_bytes()));
            ctx.eval_local("C09", &mut st, rep);
        }
        // gate signatures and the gate listing
        for np in 0..5 {
            for nq in 1..5 {
                for std in [false, true] {
                    let mut rep = CaseReport::default();
                    let text = gate_listing_case(np, nq, std, &mut rep.failures);
                    rep.class("gate-signature");
                    rep.nontrivial = Some(fnv64(text.as_bytes()));
                    if np == 2 && nq == 2 && !std {
                        rep.sample = Some(text);
                    }
                    ctx.eval_local("C09", &mut st, rep);
                }
            }
        }
        for (text, gates, def) in dup_signature_cases() {
            let mut rep = CaseReport::default();
            dup_signature_case(&text, &gates, &def, &mut rep.failures);
            rep.class("duplicate-parameter-name");
            rep.nontrivial = Some(fnv64(text.as_bytes()));
            ctx.eval_local("C09", &mut st, rep);
        }
        for cl in clash_sets() {
            let mut rep = CaseReport::default();
            let names: Vec<&str> = cl.iter().map(|s| s.as_str()).collect();
            let text = gate_clash_case(&names, &mut rep.failures);
            rep.class("gate-name-clash");
            rep.nontrivial = Some(fnv64(text.as_bytes()));
            if cl.len() == 3 {
                rep.sample = Some(text);
            }
            ctx.eval_local("C09", &mut st, rep);
        }
        ctx.merge_stats(st);
    }
    // random widths
    let n = ctx.pick(100_000u64, 1_000_000u64);
    ctx.random("random-width", n, 8, |src| {
        let bits = 1 + src.below(34);
        let w: u128 = ((src.u64() as u128) % (1u128 << bits)).max(1);
        let r = src.below(5);
        let via = [None, None, Some("int"), Some("uint[64]")][src.below(4)];
        let forms = decl_forms(&spell(w, r), w, via);
        let dc = &forms[src.below(forms.len())];
        let mut rep = CaseReport::default();
        let judged = check_decl_case(dc, &mut rep.failures);
        rep.discarded = !judged;
        rep.class(if dc.fits { "width-fits" } else { "width-too-large" });
        rep.nontrivial = Some(fnv64(dc.text.as_bytes()));
        rep.sample = Some(dc.text.clone());
        rep
    });
    // declared types inside generated programs (joint walk)
    let n = ctx.pick(100_000u64, 2_000_000u64);
    ctx.random("joint-walk", n, 1200, |src| {
        let prog = crate::semgen::gen_program(src, &crate::semgen::Profile::plain());
        let pr = crate::synprops::print_program(src, &prog, crate::layout::Style::Spaced);
        let mut rep = CaseReport::default();
        match crate::semprops::joint(&prog, &pr) {
            Some(j) if !j.crashed => {
                if j.judged_types > 0 {
                    rep.nontrivial = Some(fnv64(pr.text.as_bytes()));
                }
                rep.failures = j.fails.into_iter().filter(|f| f.key.starts_with("C09:")).collect();
            }
            _ => rep.discarded = true,
        }
        rep.class("generated-program");
        rep
    });
}

// ------------------------------------------------------------------------------------------
// C10 — literal values reach the semantic graph exactly
// ------------------------------------------------------------------------------------------

#[derive(Clone, Debug)]
enum Want {
    Int(u128, bool),       // magnitude, negated
    Float(f64, bool),
    Bits(String),
    TimingInt(u128, &'static str, bool),
    TimingFloat(f64, &'static str, bool),
    ImagInt(u128, bool),
    ImagFloat(f64, bool),
    Bool(bool),
}

#[derive(Clone, Debug)]
struct Lit {
    spelling: String,
    want: Want,
    class: &'static str,
}

fn underscore(src: &mut Src, digits: &str) -> String {
    // single underscores between digits, at random places
    let mut o = String::new();
    let n = digits.len();
    for (i, ch) in digits.chars().enumerate() {
        o.push(ch);
        if i + 1 < n && src.chance(1, 6) {
            o.push('_');
        }
    }
    o
}

fn gen_int_spelling(src: &mut Src) -> (String, u128, &'static str) {
    // magnitude: buckets by bit length, with edges
    let bits = src.below(129);
    let v: u128 = match src.below(5) {
        0 if bits > 0 => (if bits == 128 { u128::MAX } else { (1u128 << bits) - 1 }),
        1 if bits < 128 => 1u128 << bits,
        2 if bits < 127 => (1u128 << bits) + 1,
        _ => {
            if bits == 0 {
                0
            } else if bits == 128 {
                src.u128()
            } else {
                src.u128() % (1u128 << bits)
            }
        }
    };
    let lead = if src.chance(1, 8) { "0".repeat(1 + src.below(3)) } else { String::new() };
    match src.below(7) {
        0 | 1 => {
            // decimal: leading zeros only as "0…" digits are still decimal
            let d = format!("{lead}{v}");
            (underscore(src, &d), v, "dec")
        }
        2 => (format!("0x{}", underscore(src, &format!("{lead}{v:x}"))), v, "hex-lower"),
        3 => {
            // mixed-case hex digits, either prefix case
            let mut d = format!("{lead}{v:X}");
            if src.bool() {
                d = d.chars().enumerate().map(|(i, c)| if i % 2 == 0 { c.to_ascii_lowercase() } else { c }).collect();
            }
            let p = if src.chance(1, 3) { "0X" } else { "0x" };
            (format!("{p}{}", underscore(src, &d)), v, "hex-mixed")
        }
        4 => {
            let p = if src.chance(1, 3) { "0B" } else { "0b" };
            (format!("{p}{}", underscore(src, &format!("{lead}{v:b}"))), v, "bin")
        }
        5 => {
            let p = if src.chance(1, 3) { "0O" } else { "0o" };
            (format!("{p}{}", underscore(src, &format!("{lead}{v:o}"))), v, "oct")
        }
        _ => (format!("{v}"), v, "dec-plain"),
    }
}

fn gen_float_spelling(src: &mut Src) -> (String, f64, &'static str) {
    if src.chance(1, 3) {
        // a random finite double printed by std (shortest round-trip form, or exponent form)
        let mut x = f64::from_bits(src.u64());
        if !x.is_finite() {
            x = 1.5;
        }
        let x = x.abs();
        let s = if src.bool() { format!("{x:e}") } else { format!("{x:?}") };
        if s.contains("inf") || s.contains("NaN") {
            return ("1.5".into(), 1.5, "float-std");
        }
        // `{:?}` of a float may be like "1e300" or "1.5"; "{:e}" like "1.5e300"; all are valid spellings
        let v: f64 = s.parse().unwrap();
        return (s, v, "float-std");
    }
    let ip = format!("{}", src.below(100000));
    let fp = format!("{:0w$}", src.below(100000), w = 1 + src.below(5));
    let ex = src.below(40) as i32 - 20;
    let e = if src.bool() { "e" } else { "E" };
    let sign = if ex < 0 { "-" } else if src.bool() { "+" } else { "" };
    let (s, class) = match src.below(7) {
        0 => (format!("{}.{}", underscore(src, &ip), underscore(src, &fp)), "d.d"),
        1 => (format!("{ip}."), "d."),
        2 => (format!(".{fp}"), ".d"),
        3 => (format!("{ip}{e}{sign}{}", ex.abs()), "dEd"),
        4 => (format!("{ip}.{fp}{e}{sign}{}", ex.abs()), "d.dEd"),
        5 => (format!(".{fp}{e}{sign}{}", ex.abs()), ".dEd"),
        _ => (format!("{ip}.{e}{sign}{}", ex.abs()), "d.Ed"),
    };
    let v: f64 = s.replace('_', "").parse().unwrap_or(f64::NAN);
    (s, v, class)
}

const UNITS: &[(&str, &str)] = &[("ns", "NanoSecond"), ("us", "MicroSecond"), ("µs", "MicroSecond"), ("ms", "MilliSecond"), ("s", "Second"), ("dt", "Cycle")];

fn gen_lit(src: &mut Src) -> Lit {
    match src.weighted(&[10, 6, 3, 3, 2, 2, 1]) {
        0 => {
            let (s, v, c) = gen_int_spelling(src);
            if src.chance(1, 5) {
                let sp = if src.bool() { "-" } else { "- " };
                Lit { spelling: format!("{sp}{s}"), want: Want::Int(v, true), class: "neg-int" }
            } else {
                Lit { spelling: s, want: Want::Int(v, false), class: c }
            }
        }
        1 => {
            let (s, v, c) = gen_float_spelling(src);
            if src.chance(1, 5) {
                Lit { spelling: format!("-{s}"), want: Want::Float(v, true), class: "neg-float" }
            } else {
                Lit { spelling: s, want: Want::Float(v, false), class: c }
            }
        }
        2 => {
            let hi = if src.chance(1, 10) { 256 } else { 24 };
            let n = 1 + src.below(hi);
            let q = if src.bool() { '"' } else { '\'' };
            let mut bits = String::new();
            let mut s = String::new();
            s.push(q);
            for i in 0..n {
                let b = if src.bool() { '1' } else { '0' };
                bits.push(b);
                s.push(b);
                if i + 1 < n && src.chance(1, 7) {
                    s.push('_');
                }
            }
            s.push(q);
            Lit { spelling: s, want: Want::Bits(bits), class: "bitstring" }
        }
        3 => {
            // timing: decimal integer or float, unit attached or separated by blanks
            let (unit, name) = UNITS[src.below(UNITS.len())];
            let gap = ["", "", " ", "  ", "\t"][src.below(5)];
            let neg = src.chance(1, 4);
            let m = if !neg {
                ""
            } else if src.bool() {
                "-"
            } else {
                "- "
            };
            if src.bool() {
                let v = src.below(1_000_000) as u128;
                Lit { spelling: format!("{m}{v}{gap}{unit}"), want: Want::TimingInt(v, name, neg), class: if neg { "neg-timing-int" } else { "timing-int" } }
            } else {
                let (s, v, _) = gen_float_spelling(src);
                Lit { spelling: format!("{m}{s}{gap}{unit}"), want: Want::TimingFloat(v, name, neg), class: if neg { "neg-timing-float" } else { "timing-float" } }
            }
        }
        4 => {
            let gap = ["", " ", "\t"][src.below(3)];
            let neg = src.chance(1, 4);
            let m = if neg { "-" } else { "" };
            if src.bool() {
                let v = src.below(1_000_000) as u128;
                Lit { spelling: format!("{m}{v}{gap}im"), want: Want::ImagInt(v, neg), class: "imag-int" }
            } else {
                let (s, v, _) = gen_float_spelling(src);
                Lit { spelling: format!("{m}{s}{gap}im"), want: Want::ImagFloat(v, neg), class: "imag-float" }
            }
        }
        5 => {
            let b = src.bool();
            Lit { spelling: format!("{b}"), want: Want::Bool(b), class: "bool" }
        }
        _ => {
            // exact edges
            let v = [0u128, 1, u64::MAX as u128, (u64::MAX as u128) + 1, u128::MAX, 255, 256, 65535][src.below(8)];
            Lit { spelling: format!("{v}"), want: Want::Int(v, false), class: "edge" }
        }
    }
}

fn find_literal<'a>(e: &'a asg::TExpr) -> Option<&'a asg::Literal> {
    match e.expression() {
        asg::Expr::Literal(l) => Some(l),
        asg::Expr::Cast(c) => find_literal(c.operand()),
        _ => None,
    }
}

fn float_eq(got: &str, want: f64, neg: bool) -> bool {
    match got.parse::<f64>() {
        Ok(g) => {
            let w = if neg { -want } else { want };
            g.to_bits() == w.to_bits() || (g == 0.0 && w == 0.0)
        }
        Err(_) => false,
    }
}

fn check_lit(l: &Lit, got: Option<&asg::Literal>, ty: Option<&Type>, ctxname: &str, text: &str, out: &mut Vec<Failure>) {
    let detail = |a: String| json!({"input": {"source": text, "literal": l.spelling}, "expected": format!("{:?}", l.want), "actual": a});
    let Some(g) = got else {
        out.push(Failure::new(format!("C10:literal-not-found:{}:{ctxname}", l.class), detail("no literal at the expected position".into())));
        return;
    };
    let ok = match (&l.want, g) {
        (Want::Int(v, neg), asg::Literal::Int(i)) => i.value() == v && *i.sign() == !*neg,
        (Want::Float(v, neg), asg::Literal::Float(f)) => float_eq(f.value(), *v, *neg),
        (Want::Bits(b), asg::Literal::BitString(s)) => {
            let okv = s.value().replace('_', "") == *b;
            let okt = ty.map(|t| t == &Type::BitArray(ArrayDims::D1(b.len()), IsConst::True)).unwrap_or(true);
            okv && okt
        }
        (Want::TimingInt(v, u, neg), asg::Literal::TimingIntLiteral(t)) => t.value() == v && *t.sign() == !*neg && format!("{:?}", t.time_unit()) == *u,
        (Want::TimingFloat(v, u, neg), asg::Literal::TimingFloatLiteral(t)) => (t.value().to_bits() == v.to_bits() || (*t.value() == 0.0 && *v == 0.0)) && *t.sign() == !*neg && format!("{:?}", t.time_unit()) == *u,
        (Want::ImagInt(v, neg), asg::Literal::ImaginaryInt(i)) => i.value() == v && *i.sign() == !*neg,
        (Want::ImagFloat(v, neg), asg::Literal::ImaginaryFloat(f)) => float_eq(f.value(), *v, *neg),
        (Want::Bool(b), asg::Literal::Bool(x)) => x.value() == b,
        _ => false,
    };
    if !ok {
        out.push(Failure::new(format!("C10:value:{}:{ctxname}", l.class), detail(format!("{g:?}"))));
    }
}

/// AST accessor agreement for one literal spelling (bare, non-negated numeric part).
fn check_ast_accessors(text: &str, lits: &[Lit], out: &mut Vec<Failure>) {
    use oq3_syntax::ast::{self, AstNode};
    let r = guarded(|| {
        let parse = oq3_syntax::SourceFile::parse(text);
        let mut fails = vec![];
        let nodes: Vec<ast::Literal> = parse.syntax_node().descendants().filter_map(ast::Literal::cast).collect();
        // one literal node per generated literal, in order (timing/imag literals contain one)
        if nodes.len() == lits.len() {
            for (n, l) in nodes.iter().zip(lits.iter()) {
                let ok = match (n.kind(), &l.want) {
                    (ast::LiteralKind::IntNumber(t), Want::Int(v, _) | Want::TimingInt(v, _, _) | Want::ImagInt(v, _)) => {
                        use oq3_syntax::ast::AstToken;
                        let tx = t.text().to_string();
                        let want_radix = match tx.get(..2).map(|p| p.to_ascii_lowercase()).as_deref() {
                            Some("0x") => 16,
                            Some("0b") => 2,
                            Some("0o") => 8,
                            _ => 10,
                        };
                        let (prefix, digits, suffix) = t.split_into_parts();
                        // all value accessors agree, the parts tile the token, no suffix, right radix
                        t.value() == Some(*v)
                            && t.value_u128() == Some(*v)
                            && t.suffix().is_none()
                            && t.radix() as u32 == want_radix
                            && format!("{prefix}{digits}{suffix}") == tx
                            && prefix.len() == if want_radix == 10 { 0 } else { 2 }
                    }
                    (ast::LiteralKind::FloatNumber(t), Want::Float(v, _) | Want::TimingFloat(v, _, _) | Want::ImagFloat(v, _)) => {
                        use oq3_syntax::ast::AstToken;
                        let (ft, suffix) = t.split_into_parts();
                        t.value().map(|x| x.to_bits() == v.to_bits() || (x == 0.0 && *v == 0.0)).unwrap_or(false)
                            && t.suffix().is_none()
                            && suffix.is_empty()
                            && ft == t.text()
                            && t.is_simple() == t.text().chars().all(|c| c.is_ascii_digit() || c == '.')
                    }
                    (ast::LiteralKind::BitString(t), Want::Bits(b)) => t.value().map(|s| s.replace('_', "") == *b).unwrap_or(false) && t.str().map(|s| s.replace('_', "") == *b).unwrap_or(false),
                    (ast::LiteralKind::Bool(x), Want::Bool(b)) => x == *b,
                    _ => false,
                };
                if !ok {
                    fails.push((l.class, l.spelling.clone(), format!("{:?}", l.want)));
                }
            }
        }
        fails
    });
    if let Ok(fails) = r {
        for (class, sp, want) in fails {
            out.push(Failure::new(format!("C10:ast-accessor:{class}"), json!({"input": {"source": text, "literal": sp}, "expected": want})));
        }
    }
}

fn flipped(w: &Want) -> Option<Want> {
    Some(match w {
        Want::Int(v, n) => Want::Int(*v, !*n),
        Want::Float(v, n) => Want::Float(*v, !*n),
        Want::TimingInt(v, u, n) => Want::TimingInt(*v, u, !*n),
        Want::TimingFloat(v, u, n) => Want::TimingFloat(*v, u, !*n),
        Want::ImagInt(v, n) => Want::ImagInt(*v, !*n),
        Want::ImagFloat(v, n) => Want::ImagFloat(*v, !*n),
        Want::Bits(_) | Want::Bool(_) => return None,
    })
}

fn check_c10_batch(lits: &[Lit], context: usize, out: &mut Vec<Failure>) -> bool {
    // contexts: 0 expression statement, 1 declaration initializer, 2 gate-call argument,
    // 3 parenthesised, 4 a minus sign in front of the parenthesised literal (numeric classes)
    let mut text = String::new();
    let ctxname = ["expr-stmt", "decl-init", "gate-argument", "parenthesised", "minus-parenthesised"][context];
    for (i, l) in lits.iter().enumerate() {
        match context {
            0 => text.push_str(&format!("{};\n", l.spelling)),
            1 => text.push_str(&format!("{} v{i} = {};\n", decl_type_for(&l.want), l.spelling)),
            2 => text.push_str(&format!("U({}, 0, 0) $0;\n", l.spelling)),
            4 if flipped(&l.want).is_some() => text.push_str(&format!("-({});\n", l.spelling)),
            _ => text.push_str(&format!("({});\n", l.spelling)),
        }
    }
    if !clean_parse(&text) {
        return false;
    }
    let Ok(res) = analyze(&text) else { return false };
    let stmts = res.program().stmts();
    if stmts.len() != lits.len() {
        out.push(Failure::new(format!("C10:statement-count:{ctxname}"), json!({"input": {"source": text}, "expected": lits.len(), "actual": stmts.len()})));
        return true;
    }
    for (l, s) in lits.iter().zip(stmts.iter()) {
        if context == 4 && flipped(&l.want).is_some() {
            // either a unary minus over the literal as written, or one literal of opposite sign
            if let asg::Stmt::ExprStmt(e) = s {
                let mut top = e;
                while let asg::Expr::Cast(c) = top.expression() {
                    top = c.operand();
                }
                match top.expression() {
                    asg::Expr::UnaryExpr(u) if matches!(u.op(), asg::UnaryOp::Minus) => check_lit(l, find_literal(u.operand()), None, ctxname, &text, out),
                    asg::Expr::Literal(lit) => {
                        let l2 = Lit { spelling: l.spelling.clone(), want: flipped(&l.want).unwrap(), class: l.class };
                        check_lit(&l2, Some(lit), None, ctxname, &text, out)
                    }
                    _ => check_lit(l, None, None, ctxname, &text, out),
                }
            } else {
                check_lit(l, None, None, ctxname, &text, out);
            }
            continue;
        }
        let (lit, ty) = match (context, s) {
            (0, asg::Stmt::ExprStmt(e)) | (3, asg::Stmt::ExprStmt(e)) | (4, asg::Stmt::ExprStmt(e)) => (find_literal(e), Some(e.get_type().clone())),
            (1, asg::Stmt::DeclareClassical(d)) => (d.initializer().and_then(find_literal), d.initializer().map(|i| lit_type(i))),
            (2, asg::Stmt::GateCall(g)) => (g.params().and_then(|p| p.first()).and_then(find_literal), g.params().and_then(|p| p.first()).map(|p| lit_type(p))),
            _ => (None, None),
        };
        check_lit(l, lit, ty.as_ref(), ctxname, &text, out);
    }
    if context == 0 {
        // numeric part accessors: build the list without sign
        check_ast_accessors(&text, lits, out);
    }
    true
}

fn lit_type(e: &asg::TExpr) -> Type {
    match e.expression() {
        asg::Expr::Cast(c) => lit_type(c.operand()),
        _ => e.get_type().clone(),
    }
}

fn decl_type_for(w: &Want) -> String {
    match w {
        Want::Int(..) => "int".into(),
        Want::Float(..) => "float".into(),
        Want::Bits(b) => format!("bit[{}]", b.len()),
        Want::TimingInt(..) | Want::TimingFloat(..) => "duration".into(),
        Want::ImagInt(..) | Want::ImagFloat(..) => "complex".into(),
        Want::Bool(_) => "bool".into(),
    }
}

pub fn replay_c10(v: &serde_json::Value) -> Result<Vec<Failure>, String> {
    let choices: Vec<u32> = v["choices"].as_array().ok_or("no choices")?.iter().filter_map(|x| x.as_u64().map(|n| n as u32)).collect();
    let mut src = Src::new(&choices);
    let mut out = vec![];
    c10_case(&mut src, &mut out);
    Ok(out)
}

fn c10_case(src: &mut Src, out: &mut Vec<Failure>) -> (bool, Vec<Lit>) {
    let n = 1 + src.below(32);
    let context = src.below(5);
    let lits: Vec<Lit> = (0..n).map(|_| gen_lit(src)).collect();
    (check_c10_batch(&lits, context, out), lits)
}

pub fn run_c10(ctx: &RunCtx) {
    ctx.set_rule("literals in batches of up to 32 per program, each bare / negated / parenthesised, in expression-statement, declaration-initializer and gate-argument context: integers across all bit lengths 0..128 with edge values 2^k-1, 2^k, 2^k+1 in decimal / hex (both digit cases) / binary / octal, both prefix cases, random single underscores and leading zeros; floats in 7 spelling shapes and random doubles printed by std; bit strings up to 256 bits with underscores and both quote kinds; 6 time units and im, attached or separated by blanks; booleans. oracle: value in the graph = mathematical value (std parsing as trusted base for floats: bit equality), sign flag, unit, bit count = width; AST accessors agree: IntNumber value/value_u128/radix/suffix/split_into_parts, FloatNumber value/suffix/split_into_parts/is_simple, BitString value/str. non-trivial = value >= 10 or spelling with _, prefix, exponent or unit; distinct by spelling");
    ctx.assume("str::parse::<f64> and u128 arithmetic of std are the trusted base; values >= 2^128 are outside this property (C03)");
    let n = ctx.pick(400_000u64, 6_000_000u64);
    ctx.random("literal-batch", n, 400, |src| {
        let mut rep = CaseReport::default();
        let (judged, lits) = c10_case(src, &mut rep.failures);
        rep.discarded = !judged;
        for l in &lits {
            rep.class(l.class);
        }
        // non-trivial literals counted individually
        let nt: Vec<&Lit> = lits.iter().filter(|l| l.spelling.len() >= 2).collect();
        if !nt.is_empty() {
            rep.nontrivial = Some(fnv64(nt.iter().map(|l| l.spelling.as_str()).collect::<Vec<_>>().join("|").as_bytes()));
        }
        rep.sample = Some(lits.iter().take(6).map(|l| l.spelling.clone()).collect::<Vec<_>>().join("  "));
        rep
    });
    // deterministic edge sweep: every k in 0..=128, three values, four radices
    let mut edges: Vec<Lit> = vec![];
    for k in 0..=128u32 {
        for d in [-1i32, 0, 1] {
            let base: u128 = if k == 128 { 0 } else { 1u128 << k };
            let v = match d {
                -1 => {
                    if k == 128 {
                        u128::MAX
                    } else {
                        base.wrapping_sub(1)
                    }
                }
                0 => {
                    if k == 128 {
                        continue;
                    } else {
                        base
                    }
                }
                _ => {
                    if k >= 127 {
                        continue;
                    } else {
                        base + 1
                    }
                }
            };
            if k == 0 && d == -1 {
                continue;
            }
            for (r, class) in [(format!("{v}"), "edge-dec"), (format!("0x{v:x}"), "edge-hex"), (format!("0X{v:X}"), "edge-HEX"), (format!("0b{v:b}"), "edge-bin"), (format!("0o{v:o}"), "edge-oct")] {
                edges.push(Lit { spelling: r, want: Want::Int(v, false), class });
            }
            edges.push(Lit { spelling: format!("-{v}"), want: Want::Int(v, true), class: "edge-neg" });
        }
    }
    let chunks: Vec<&[Lit]> = edges.chunks(24).collect();
    ctx.par_units(chunks.len(), |i, st| {
        for context in 0..5 {
            let mut rep = CaseReport::default();
            let judged = check_c10_batch(chunks[i], context, &mut rep.failures);
            rep.discarded = !judged;
            rep.class("edge-sweep");
            rep.nontrivial = Some(fnv64(format!("{i}/{context}").as_bytes()));
            ctx.eval_local("C10", st, rep);
        }
    });
    ctx.mark_exhaustive(format!("edge sweep: {} integer spellings (2^k-1, 2^k, 2^k+1 for k<=128, 5 radices, negated) x 4 contexts", edges.len()));
}
