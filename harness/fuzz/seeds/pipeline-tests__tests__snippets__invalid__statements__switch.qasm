// lex: ok
// parse: diag
// sema: skip

switch () {}
switch (i) { x $0 }
switch (i) { case {} }
switch (i) { case 1,, {} }
switch (i) { default 0 {} }
switch (i) { default, default {} }
