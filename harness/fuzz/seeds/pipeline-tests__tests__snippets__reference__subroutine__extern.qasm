// lex: ok
// parse: ok
// sema: todo

extern test_kern(bit[5], uint[10], float[16], complex[float[64]]) -> float[6];
