//! Common machinery: choice sources, proptest driver, statistics, panic capture,
//! known-findings protocol, replay files and evidence output (DESIGN.md §3).

use proptest::strategy::{Strategy, ValueTree};
use proptest::test_runner::{Config, RngSeed, TestCaseError, TestError, TestRunner};
use rayon::prelude::*;
use serde_json::{json, Value};
use std::cell::{Cell, RefCell};
use std::collections::{BTreeMap, HashMap, HashSet};
use std::panic::{catch_unwind, AssertUnwindSafe};
use std::path::{Path, PathBuf};
use std::sync::atomic::{AtomicBool, AtomicU64, Ordering};
use std::sync::{Mutex, OnceLock};
use std::time::Instant;

// ------------------------------------------------------------------------------------------
// Choice source: every generator is a function from a finite sequence of u32 choices to a
// value. Exhausted sources answer 0, and generators are written so that 0 is the simplest
// alternative; shrinking the sequence (by proptest) therefore shrinks the value.
// ------------------------------------------------------------------------------------------

pub struct Src<'a> {
    data: &'a [u32],
    pos: usize,
}

impl<'a> Src<'a> {
    pub fn new(data: &'a [u32]) -> Self {
        Src { data, pos: 0 }
    }
    #[inline]
    pub fn next(&mut self) -> u32 {
        if self.pos < self.data.len() {
            let v = self.data[self.pos];
            self.pos += 1;
            v
        } else {
            0
        }
    }
    /// Uniform in 0..n, monotone in the underlying choice (so that shrinking works).
    #[inline]
    pub fn below(&mut self, n: usize) -> usize {
        if n <= 1 {
            return 0;
        }
        ((self.next() as u64 * n as u64) >> 32) as usize
    }
    /// Inclusive range.
    pub fn range(&mut self, lo: usize, hi: usize) -> usize {
        lo + self.below(hi - lo + 1)
    }
    pub fn bool(&mut self) -> bool {
        self.below(2) == 1
    }
    /// True with probability num/den; an exhausted source answers false.
    pub fn chance(&mut self, num: usize, den: usize) -> bool {
        self.below(den) >= den - num
    }
    pub fn pick<'b, T>(&mut self, xs: &'b [T]) -> &'b T {
        &xs[self.below(xs.len())]
    }
    pub fn weighted(&mut self, w: &[u32]) -> usize {
        let total: u64 = w.iter().map(|x| *x as u64).sum();
        if total == 0 {
            return 0;
        }
        let mut x = (self.next() as u64 * total) >> 32;
        for (i, wi) in w.iter().enumerate() {
            if x < *wi as u64 {
                return i;
            }
            x -= *wi as u64;
        }
        w.len() - 1
    }
    pub fn u64(&mut self) -> u64 {
        ((self.next() as u64) << 32) | self.next() as u64
    }
    pub fn u128(&mut self) -> u128 {
        ((self.u64() as u128) << 64) | self.u64() as u128
    }
    pub fn exhausted(&self) -> bool {
        self.pos >= self.data.len()
    }
    pub fn consumed(&self) -> usize {
        self.pos
    }
}

pub fn fnv64(bytes: &[u8]) -> u64 {
    let mut h: u64 = 0xcbf29ce484222325;
    for b in bytes {
        h ^= *b as u64;
        h = h.wrapping_mul(0x100000001b3);
    }
    // final avalanche
    h ^= h >> 33;
    h = h.wrapping_mul(0xff51afd7ed558ccd);
    h ^= h >> 33;
    h
}

pub fn mix(a: u64, b: u64) -> u64 {
    let mut x = a ^ b.wrapping_mul(0x9E3779B97F4A7C15);
    x ^= x >> 30;
    x = x.wrapping_mul(0xBF58476D1CE4E5B9);
    x ^= x >> 27;
    x = x.wrapping_mul(0x94D049BB133111EB);
    x ^= x >> 31;
    x
}

// ------------------------------------------------------------------------------------------
// Panic capture
// ------------------------------------------------------------------------------------------

#[derive(Clone, Debug)]
pub struct PanicInfo {
    pub file: String,
    pub line: u32,
    pub col: u32,
    pub msg: String,
    pub func: String,
}

thread_local! {
    static LAST_PANIC: RefCell<Option<PanicInfo>> = const { RefCell::new(None) };
    static QUIET: Cell<bool> = const { Cell::new(false) };
}

static FUNC_CACHE: OnceLock<Mutex<HashMap<(String, u32, u32), String>>> = OnceLock::new();

fn innermost_oq3_frame() -> String {
    let bt = std::backtrace::Backtrace::force_capture().to_string();
    // Lines look like "  12: oq3_parser::grammar::expressions::designator" followed by "at file:line".
    for line in bt.lines() {
        let t = line.trim_start();
        let Some(idx) = t.find(": ") else { continue };
        if !t[..idx].chars().all(|c| c.is_ascii_digit()) {
            continue;
        }
        let sym = &t[idx + 2..];
        let sym = sym.trim_start_matches('<');
        if sym.starts_with("oq3_")
            && !sym.starts_with("oq3_verif_harness")
            && !sym.starts_with("oq3v")
            && !sym.starts_with("oq3_parser::parser::")
        {
            // strip hash suffix and generic noise
            let mut s = sym.to_string();
            if let Some(p) = s.rfind("::h") {
                if s[p + 3..].chars().all(|c| c.is_ascii_hexdigit()) && s.len() - p == 19 {
                    s.truncate(p);
                }
            }
            // closures
            while s.ends_with("::{{closure}}") {
                let n = s.len() - "::{{closure}}".len();
                s.truncate(n);
            }
            return s;
        }
    }
    "?".to_string()
}

pub fn install_panic_hook() {
    std::panic::set_hook(Box::new(|info| {
        let (file, line, col) = match info.location() {
            Some(l) => (l.file().to_string(), l.line(), l.column()),
            None => ("?".to_string(), 0, 0),
        };
        let msg = if let Some(s) = info.payload().downcast_ref::<&str>() {
            s.to_string()
        } else if let Some(s) = info.payload().downcast_ref::<String>() {
            s.clone()
        } else {
            "<non-string panic payload>".to_string()
        };
        let cache = FUNC_CACHE.get_or_init(|| Mutex::new(HashMap::new()));
        let key = (file.clone(), line, col);
        let func = {
            let hit = cache.lock().unwrap().get(&key).cloned();
            match hit {
                Some(f) => f,
                None => {
                    let f = innermost_oq3_frame();
                    cache.lock().unwrap().insert(key, f.clone());
                    f
                }
            }
        };
        if !QUIET.with(|q| q.get()) {
            eprintln!("[panic outside capture] {file}:{line}:{col}: {msg}");
        }
        LAST_PANIC.with(|p| *p.borrow_mut() = Some(PanicInfo { file, line, col, msg, func }));
    }));
}

/// Normalise a panic message: digits -> N, quoted/backticked text kept (it names constructs),
/// byte ranges `a..b` -> N..N, long messages truncated.
pub fn normalise_msg(msg: &str) -> String {
    let mut out = String::new();
    let mut prev_digit = false;
    for c in msg.chars() {
        if c.is_ascii_digit() {
            if !prev_digit {
                out.push('N');
            }
            prev_digit = true;
        } else {
            prev_digit = false;
            if c == '\n' {
                out.push(' ');
            } else {
                out.push(c);
            }
        }
        if out.len() > 160 {
            break;
        }
    }
    out
}

pub fn panic_key(p: &PanicInfo) -> String {
    let msg = normalise_msg(&p.msg);
    // Debug dumps of syntax nodes inside messages make keys input dependent: cut at the first
    // node dump marker.
    let msg = match msg.find("@N..N") {
        Some(i) => {
            let head = &msg[..i];
            let cut = head.rfind(' ').unwrap_or(head.len());
            head[..cut].to_string()
        }
        None => msg,
    };
    if p.msg.starts_with("oq3_verif: parser stuck") {
        return format!("stuck:{}", p.func);
    }
    format!("panic:{}:{}", p.func, msg.trim())
}

/// Run `f`, capturing a panic as PanicInfo.
pub fn guarded<T>(f: impl FnOnce() -> T) -> Result<T, PanicInfo> {
    let prev = QUIET.with(|q| q.replace(true));
    LAST_PANIC.with(|p| *p.borrow_mut() = None);
    let r = catch_unwind(AssertUnwindSafe(f));
    QUIET.with(|q| q.set(prev));
    match r {
        Ok(v) => Ok(v),
        Err(_) => Err(LAST_PANIC.with(|p| p.borrow_mut().take()).unwrap_or(PanicInfo {
            file: "?".into(),
            line: 0,
            col: 0,
            msg: "<unknown panic>".into(),
            func: "?".into(),
        })),
    }
}

// ------------------------------------------------------------------------------------------
// Crash slots: the text under evaluation is noted in a small memory-mapped file per worker
// thread, so that a death of the whole process that `catch_unwind` cannot intercept (stack
// overflow, abort) can be attributed afterwards: `./check` then re-runs every noted text in a
// child process of its own (`oq3v aftermath`), and a child that dies from a signal is a
// violation with that text as replay input.
// ------------------------------------------------------------------------------------------

const SLOT_CAP: usize = 1 << 17;
static SLOT_ID: AtomicU64 = AtomicU64::new(0);

struct Slot {
    ptr: *mut u8,
}

thread_local! {
    static SLOT: RefCell<Option<Slot>> = RefCell::new(None);
}

pub fn slots_dir(pid: u32) -> PathBuf {
    verif_root().join("harness").join("target").join("work").join(format!("{pid}")).join("slots")
}

fn open_slot() -> Option<Slot> {
    use std::os::unix::io::AsRawFd;
    let dir = slots_dir(std::process::id());
    std::fs::create_dir_all(&dir).ok()?;
    let n = SLOT_ID.fetch_add(1, Ordering::Relaxed);
    let f = std::fs::OpenOptions::new().read(true).write(true).create(true).truncate(true).open(dir.join(format!("{n}.slot"))).ok()?;
    f.set_len(SLOT_CAP as u64).ok()?;
    let ptr = unsafe { libc::mmap(std::ptr::null_mut(), SLOT_CAP, libc::PROT_READ | libc::PROT_WRITE, libc::MAP_SHARED, f.as_raw_fd(), 0) };
    if ptr == libc::MAP_FAILED {
        return None;
    }
    Some(Slot { ptr: ptr as *mut u8 })
}

/// Note the text that is about to be handed to the code under test (`stage` 1 = lexing/parsing,
/// 2 = semantic analysis). Texts that do not fit are noted as absent.
pub fn note_case(stage: u8, text: &str) {
    SLOT.with(|s| {
        let mut s = s.borrow_mut();
        if s.is_none() {
            *s = open_slot();
        }
        if let Some(slot) = s.as_ref() {
            let b = text.as_bytes();
            let n = if b.len() + 8 <= SLOT_CAP { b.len() } else { 0 };
            unsafe {
                // invalidate, write, publish: [len u32][stage u8][0 0 0][bytes]
                std::ptr::write_volatile(slot.ptr as *mut u32, u32::MAX);
                std::ptr::write_volatile(slot.ptr.add(4), if n == b.len() { stage } else { 0 });
                std::ptr::copy_nonoverlapping(b.as_ptr(), slot.ptr.add(8), n);
                std::ptr::write_volatile(slot.ptr as *mut u32, n as u32);
            }
        }
    });
}

/// The case is over: nothing to attribute any more.
pub fn clear_case() {
    SLOT.with(|s| {
        if let Some(slot) = s.borrow().as_ref() {
            unsafe { std::ptr::write_volatile(slot.ptr.add(4), 0) };
        }
    });
}

/// Read back the noted texts of a dead process: (stage, text).
pub fn read_slots(pid: u32) -> Vec<(u8, String)> {
    let mut out = vec![];
    if let Ok(rd) = std::fs::read_dir(slots_dir(pid)) {
        for e in rd.flatten() {
            if let Ok(b) = std::fs::read(e.path()) {
                if b.len() < 8 {
                    continue;
                }
                let n = u32::from_le_bytes([b[0], b[1], b[2], b[3]]) as usize;
                let stage = b[4];
                if stage == 0 || n == u32::MAX as usize || 8 + n > b.len() {
                    continue;
                }
                if let Ok(t) = std::str::from_utf8(&b[8..8 + n]) {
                    out.push((stage, t.to_string()));
                }
            }
        }
    }
    out.sort();
    out.dedup();
    out
}

pub fn is_harness_panic(p: &PanicInfo) -> bool {
    p.file.contains("harness/src") || p.file.starts_with("src/")
}

// ------------------------------------------------------------------------------------------
// Failures, case reports, statistics
// ------------------------------------------------------------------------------------------

#[derive(Clone, Debug)]
pub struct Failure {
    /// Root-cause key (see DESIGN.md §3.4): `<PROP>:<check>:<rule>:<detail>`.
    pub key: String,
    /// Replayable input and expected/actual renderings.
    pub detail: Value,
}

impl Failure {
    pub fn new(key: impl Into<String>, detail: Value) -> Failure {
        Failure { key: key.into(), detail }
    }
}

#[derive(Default)]
pub struct CaseReport {
    pub failures: Vec<Failure>,
    /// Canonical-form hash if the case is non-trivial by the property's rule.
    pub nontrivial: Option<u64>,
    /// Generator classes this case belongs to (for the histogram).
    pub classes: Vec<String>,
    /// A rendering of the case for the evidence samples.
    pub sample: Option<String>,
    /// Number of constructs rewritten/excluded by avoidance switches.
    pub avoided: u64,
    /// Case was discarded (generator could not build a valid case); counted separately.
    pub discarded: bool,
}

impl CaseReport {
    pub fn class(&mut self, c: impl Into<String>) {
        self.classes.push(c.into());
    }
    pub fn fail(&mut self, key: impl Into<String>, detail: Value) {
        self.failures.push(Failure::new(key, detail));
    }
}

#[derive(Default)]
pub struct Stats {
    pub evaluations: u64,
    pub discarded: u64,
    pub avoided: u64,
    pub nontrivial: HashSet<u64>,
    pub classes: BTreeMap<String, u64>,
    /// discarded cases per class (a deterministic family that is discarded wholesale tests nothing)
    pub discarded_classes: BTreeMap<String, u64>,
    pub samples: BTreeMap<String, Vec<String>>,
    pub known_hits: BTreeMap<String, u64>,
}

impl Stats {
    pub fn merge(&mut self, o: Stats) {
        self.evaluations += o.evaluations;
        self.discarded += o.discarded;
        self.avoided += o.avoided;
        self.nontrivial.extend(o.nontrivial);
        for (k, v) in o.classes {
            *self.classes.entry(k).or_default() += v;
        }
        for (k, v) in o.discarded_classes {
            *self.discarded_classes.entry(k).or_default() += v;
        }
        for (k, v) in o.samples {
            let e = self.samples.entry(k).or_default();
            for s in v {
                if e.len() < 3 {
                    e.push(s);
                }
            }
        }
        for (k, v) in o.known_hits {
            *self.known_hits.entry(k).or_default() += v;
        }
    }
    pub fn absorb(&mut self, check: &str, r: &CaseReport) {
        if r.discarded {
            self.discarded += 1;
            for c in &r.classes {
                *self.discarded_classes.entry(format!("{check}/{c}")).or_default() += 1;
            }
            return;
        }
        self.evaluations += 1;
        self.avoided += r.avoided;
        if let Some(h) = r.nontrivial {
            self.nontrivial.insert(h);
        }
        for c in &r.classes {
            *self.classes.entry(format!("{check}/{c}")).or_default() += 1;
        }
        if let Some(s) = &r.sample {
            let class = r.classes.first().map(|c| format!("{check}/{c}")).unwrap_or_else(|| check.to_string());
            let e = self.samples.entry(class).or_default();
            if e.len() < 2 {
                let mut s = s.clone();
                if s.len() > 600 {
                    let mut cut = 600;
                    while !s.is_char_boundary(cut) {
                        cut -= 1;
                    }
                    s.truncate(cut);
                    s.push('…');
                }
                e.push(s);
            }
        }
    }
}

// ------------------------------------------------------------------------------------------
// Known findings
// ------------------------------------------------------------------------------------------

#[derive(Clone, Debug)]
pub struct Finding {
    pub property: String,
    pub key: String,
    pub status: String, // "known" | "fixed"
    pub what: String,
    pub replay: Option<String>,
    pub commit: Option<String>,
}

pub fn verif_root() -> PathBuf {
    if let Ok(p) = std::env::var("VERIF_ROOT") {
        return PathBuf::from(p);
    }
    // harness/target/release/oq3v -> /verif
    let exe = std::env::current_exe().unwrap();
    let mut p = exe.as_path();
    for _ in 0..4 {
        p = p.parent().unwrap_or(Path::new("/verif"));
    }
    if p.join("properties.jsonl").exists() {
        p.to_path_buf()
    } else {
        PathBuf::from("/verif")
    }
}

pub fn load_findings(property: &str) -> Vec<Finding> {
    let path = verif_root().join("known_findings.json");
    let Ok(text) = std::fs::read_to_string(&path) else { return vec![] };
    let v: Value = serde_json::from_str(&text).expect("known_findings.json is not valid JSON");
    let mut out = vec![];
    for e in v["findings"].as_array().cloned().unwrap_or_default() {
        if e["property"].as_str() != Some(property) {
            continue;
        }
        out.push(Finding {
            property: property.to_string(),
            key: e["key"].as_str().unwrap_or("").to_string(),
            status: e["status"].as_str().unwrap_or("known").to_string(),
            what: e["what"].as_str().unwrap_or("").to_string(),
            replay: e["replay"].as_str().map(|s| s.to_string()),
            commit: e["commit"].as_str().map(|s| s.to_string()),
        });
    }
    out
}

// ------------------------------------------------------------------------------------------
// Run context
// ------------------------------------------------------------------------------------------

#[derive(Clone, Copy, PartialEq, Eq, Debug)]
pub enum Tier {
    Quick,
    Thorough,
}

pub struct RunCtx {
    pub property: String,
    pub tier: Tier,
    pub seed: u64,
    pub findings: Vec<Finding>,
    pub known_keys: HashSet<String>,
    pub stats: Mutex<Stats>,
    /// New (unlisted) failures by key: first minimal reproduction.
    pub violations: Mutex<BTreeMap<String, Failure>>,
    /// Known keys observed in this run (for KNOWN-FINDING lines).
    pub known_seen: Mutex<BTreeMap<String, u64>>,
    pub infra_errors: Mutex<Vec<String>>,
    pub exhaustive: Mutex<Vec<String>>,
    pub notes: Mutex<Vec<String>>,
    pub rule: Mutex<String>,
    pub assumptions: Mutex<Vec<String>>,
    pub start: Instant,
    pub max_new_keys: usize,
    /// proptest shrink-iteration bound per captured failure (lowered by checks whose cases do file I/O)
    pub shrink_iters: std::sync::atomic::AtomicU32,
}

pub const SHARDS: usize = 64;

impl RunCtx {
    pub fn new(property: &str, tier: Tier, seed: u64) -> RunCtx {
        let findings = load_findings(property);
        let known_keys = findings.iter().filter(|f| f.status == "known").map(|f| f.key.clone()).collect();
        RunCtx {
            property: property.to_string(),
            tier,
            seed,
            findings,
            known_keys,
            stats: Mutex::new(Stats::default()),
            violations: Mutex::new(BTreeMap::new()),
            known_seen: Mutex::new(BTreeMap::new()),
            infra_errors: Mutex::new(vec![]),
            exhaustive: Mutex::new(vec![]),
            notes: Mutex::new(vec![]),
            rule: Mutex::new(String::new()),
            assumptions: Mutex::new(vec![]),
            start: Instant::now(),
            max_new_keys: 24,
            shrink_iters: std::sync::atomic::AtomicU32::new(50_000),
        }
    }

    pub fn quick(&self) -> bool {
        self.tier == Tier::Quick
    }

    pub fn pick<T>(&self, quick: T, thorough: T) -> T {
        if self.quick() {
            quick
        } else {
            thorough
        }
    }

    pub fn set_rule(&self, r: &str) {
        *self.rule.lock().unwrap() = r.to_string();
    }
    pub fn assume(&self, a: &str) {
        self.assumptions.lock().unwrap().push(a.to_string());
    }
    pub fn note(&self, n: impl Into<String>) {
        self.notes.lock().unwrap().push(n.into());
    }
    pub fn mark_exhaustive(&self, what: impl Into<String>) {
        self.exhaustive.lock().unwrap().push(what.into());
    }

    pub fn is_known(&self, key: &str) -> bool {
        self.known_keys.contains(key)
    }

    /// Record failures of one evaluated case; returns keys that are new (unlisted).
    pub fn record_failures(&self, failures: Vec<Failure>) {
        for f in failures {
            if self.is_known(&f.key) {
                *self.known_seen.lock().unwrap().entry(f.key.clone()).or_default() += 1;
            } else {
                let mut v = self.violations.lock().unwrap();
                if v.len() < 200 {
                    v.entry(f.key.clone()).or_insert(f);
                }
            }
        }
    }

    /// Evaluate one case outside of the random driver (enumerations, replays).
    pub fn eval_local(&self, check: &str, local: &mut Stats, r: CaseReport) {
        local.absorb(check, &r);
        if !r.failures.is_empty() {
            for f in &r.failures {
                if self.is_known(&f.key) {
                    *local.known_hits.entry(f.key.clone()).or_default() += 1;
                }
            }
            self.record_failures(r.failures);
        }
    }

    pub fn merge_stats(&self, s: Stats) {
        let mut g = self.stats.lock().unwrap();
        for (k, v) in &s.known_hits {
            *self.known_seen.lock().unwrap().entry(k.clone()).or_default() += *v;
        }
        g.merge(s);
    }

    /// Bounded-exhaustive / deterministic enumeration helper: `n_units` work units are
    /// distributed over the pool; each unit evaluates any number of cases into its local Stats.
    pub fn par_units<F>(&self, n_units: usize, f: F)
    where
        F: Fn(usize, &mut Stats) + Sync,
    {
        let all: Vec<Stats> = (0..n_units)
            .into_par_iter()
            .map(|u| {
                let mut st = Stats::default();
                heartbeat_busy(true);
                match guarded(|| f(u, &mut st)) {
                    Ok(()) => {}
                    Err(p) => {
                        self.infra_errors.lock().unwrap().push(format!(
                            "panic escaped a work unit: {}:{}: {} [{}]",
                            p.file, p.line, p.msg, p.func
                        ));
                    }
                }
                heartbeat_busy(false);
                st
            })
            .collect();
        for s in all {
            self.merge_stats(s);
        }
    }

    /// Random search driven by proptest: `cases` cases in total, choice sequences of up to
    /// `max_len` u32 values, decoded and judged by `check`.
    pub fn random<F>(&self, check_name: &str, cases: u64, max_len: usize, check: F)
    where
        F: Fn(&mut Src) -> CaseReport + Sync,
    {
        let per_shard = cases.div_ceil(SHARDS as u64);
        let base = mix(mix(self.seed, fnv64(self.property.as_bytes())), fnv64(check_name.as_bytes()));
        let results: Vec<(Stats, Vec<(String, Vec<u32>)>)> = (0..SHARDS)
            .into_par_iter()
            .map(|shard| {
                heartbeat_busy(true);
                let r = self.random_shard(check_name, per_shard, max_len, mix(base, shard as u64), &check);
                heartbeat_busy(false);
                r
            })
            .collect();
        let mut found: BTreeMap<String, Vec<u32>> = BTreeMap::new();
        for (st, fs) in results {
            self.merge_stats(st);
            for (k, c) in fs {
                let e = found.entry(k).or_insert_with(|| c.clone());
                if c.len() < e.len() {
                    *e = c;
                }
            }
        }
        // Re-evaluate minimal reproductions to obtain details; record as violations.
        for (key, choices) in found {
            let mut src = Src::new(&choices);
            let rep = match guarded(|| check(&mut src)) {
                Ok(r) => r,
                Err(p) => {
                    let mut r = CaseReport::default();
                    r.fail(format!("{}:{}:{}", self.property, check_name, panic_key(&p)), json!({}));
                    r
                }
            };
            let mut f = rep
                .failures
                .into_iter()
                .find(|f| f.key == key)
                .unwrap_or_else(|| Failure::new(key.clone(), json!({"note": "not reproduced on re-evaluation"})));
            if let Value::Object(m) = &mut f.detail {
                m.insert("check".into(), json!(check_name));
                m.insert("choices".into(), json!(choices));
            }
            self.record_failures(vec![f]);
        }
    }

    fn random_shard<F>(
        &self,
        check_name: &str,
        cases: u64,
        max_len: usize,
        seed: u64,
        check: &F,
    ) -> (Stats, Vec<(String, Vec<u32>)>)
    where
        F: Fn(&mut Src) -> CaseReport + Sync,
    {
        let stats = RefCell::new(Stats::default());
        let captured: RefCell<Vec<(String, Vec<u32>)>> = RefCell::new(vec![]);
        let captured_keys: RefCell<HashSet<String>> = RefCell::new(HashSet::new());
        let target: RefCell<Option<String>> = RefCell::new(None);
        let done = Cell::new(0u64);
        let mut attempt = 0u64;
        // shrink budget of this shard, shared by all keys it captures (a quarter of what is left
        // per key), so that a tree with many distinct failures still finishes
        let mut shrink_left: u32 = self.shrink_iters.load(std::sync::atomic::Ordering::Relaxed);
        while done.get() < cases && captured.borrow().len() < self.max_new_keys {
            let remaining = cases - done.get();
            let this_shrink = (shrink_left / 4).max(64);
            shrink_left = shrink_left.saturating_sub(this_shrink);
            let cfg = Config {
                cases: remaining.min(u32::MAX as u64) as u32,
                failure_persistence: None,
                rng_seed: RngSeed::Fixed(mix(seed, attempt)),
                max_shrink_iters: this_shrink,
                max_shrink_time: 0,
                verbose: 0,
                max_global_rejects: 1,
                max_local_rejects: 1,
                ..Config::default()
            };
            attempt += 1;
            let mut runner = TestRunner::new(cfg);
            let strat = proptest::collection::vec(proptest::num::u32::ANY, 0..=max_len);
            let result = runner.run(&strat, |choices| {
                heartbeat_tick();
                let shrinking = target.borrow().is_some();
                let mut src = Src::new(&choices);
                let rep = match guarded(|| check(&mut src)) {
                    Ok(r) => r,
                    Err(p) => {
                        let mut r = CaseReport::default();
                        if is_harness_panic(&p) {
                            r.fail(
                                format!("HARNESS:{}:{}:{}", check_name, p.file, p.line),
                                json!({"panic": p.msg, "choices": choices}),
                            );
                        } else {
                            r.fail(format!("{}:{}:{}", self.property, check_name, panic_key(&p)), json!({}));
                        }
                        r
                    }
                };
                if shrinking {
                    let t = target.borrow().clone().unwrap();
                    if rep.failures.iter().any(|f| f.key == t) {
                        return Err(TestCaseError::fail(t));
                    }
                    return Ok(());
                }
                done.set(done.get() + 1);
                let mut st = stats.borrow_mut();
                st.absorb(check_name, &rep);
                let mut new_key: Option<String> = None;
                for f in &rep.failures {
                    if self.is_known(&f.key) {
                        *st.known_hits.entry(f.key.clone()).or_default() += 1;
                    } else if !captured_keys.borrow().contains(&f.key) && new_key.is_none() {
                        new_key = Some(f.key.clone());
                    }
                }
                if let Some(k) = new_key {
                    *target.borrow_mut() = Some(k.clone());
                    return Err(TestCaseError::fail(k));
                }
                Ok(())
            });
            match result {
                Ok(()) => break,
                Err(TestError::Fail(_reason, value)) => {
                    let k = target.borrow_mut().take().unwrap_or_else(|| "?".into());
                    captured_keys.borrow_mut().insert(k.clone());
                    captured.borrow_mut().push((k, value));
                }
                Err(TestError::Abort(reason)) => {
                    self.infra_errors.lock().unwrap().push(format!("proptest aborted: {reason}"));
                    break;
                }
            }
        }
        let _ = strat_unused::<Vec<u32>>();
        (stats.into_inner(), captured.into_inner())
    }
}

fn strat_unused<T>() -> Option<Box<dyn ValueTree<Value = T>>> {
    let _ = proptest::strategy::Just(0u8).boxed();
    None
}

// ------------------------------------------------------------------------------------------
// Watchdog: a case (or work unit step) that makes no progress for WATCHDOG_SECS is reported as
// inconclusive (exit 2), never as a violation.
// ------------------------------------------------------------------------------------------

static TICKS: AtomicU64 = AtomicU64::new(0);
static BUSY: AtomicU64 = AtomicU64::new(0);
static WATCHDOG_ON: AtomicBool = AtomicBool::new(false);
pub const WATCHDOG_SECS: u64 = 120;

#[inline]
pub fn heartbeat_tick() {
    TICKS.fetch_add(1, Ordering::Relaxed);
}
pub fn heartbeat_busy(b: bool) {
    if b {
        BUSY.fetch_add(1, Ordering::Relaxed);
    } else {
        BUSY.fetch_sub(1, Ordering::Relaxed);
    }
    heartbeat_tick();
}

pub fn start_watchdog() {
    if WATCHDOG_ON.swap(true, Ordering::SeqCst) {
        return;
    }
    std::thread::spawn(|| {
        let mut last = TICKS.load(Ordering::Relaxed);
        let mut idle = 0u64;
        loop {
            std::thread::sleep(std::time::Duration::from_secs(5));
            let now = TICKS.load(Ordering::Relaxed);
            if now == last && BUSY.load(Ordering::Relaxed) > 0 {
                idle += 5;
                if idle >= WATCHDOG_SECS {
                    println!("INCONCLUSIVE: watchdog: no progress for {WATCHDOG_SECS}s (hang or extremely slow case)");
                    // the inputs that were being handled when progress stopped
                    for (stage, text) in read_slots(std::process::id()) {
                        println!("  in {}: {:?}", if stage == 1 { "lexing/parsing" } else { "semantic analysis" }, text.chars().take(300).collect::<String>());
                    }
                    std::process::exit(2);
                }
            } else {
                idle = 0;
            }
            last = now;
        }
    });
}

pub fn set_memory_limit(gib: u64) {
    unsafe {
        let lim = libc::rlimit { rlim_cur: gib << 30, rlim_max: gib << 30 };
        libc::setrlimit(libc::RLIMIT_AS, &lim);
    }
}

// ------------------------------------------------------------------------------------------
// Finishing: replay files, VIOLATION / KNOWN-FINDING lines, evidence
// ------------------------------------------------------------------------------------------

pub fn write_replay(property: &str, f: &Failure, tier: Tier, seed: u64) -> PathBuf {
    let dir = verif_root().join("replays").join(property);
    let _ = std::fs::create_dir_all(&dir);
    let name = format!("{:016x}.json", fnv64(f.key.as_bytes()));
    let path = dir.join(name);
    let mut obj = json!({
        "property": property,
        "key": f.key,
        "tier": if tier == Tier::Quick { "quick" } else { "thorough" },
        "seed": seed,
    });
    if let (Value::Object(o), Value::Object(d)) = (&mut obj, &f.detail) {
        for (k, v) in d {
            o.insert(k.clone(), v.clone());
        }
    }
    let _ = std::fs::write(&path, serde_json::to_string_pretty(&obj).unwrap());
    path
}

pub fn finish(ctx: &RunCtx) -> i32 {
    let stats = ctx.stats.lock().unwrap();
    let violations = ctx.violations.lock().unwrap();
    let known_seen = ctx.known_seen.lock().unwrap();
    let infra = ctx.infra_errors.lock().unwrap();
    let wall = ctx.start.elapsed().as_secs_f64();

    // KNOWN-FINDING lines: one per listed known finding observed in this run.
    for f in ctx.findings.iter().filter(|f| f.status == "known") {
        if let Some(n) = known_seen.get(&f.key) {
            println!("KNOWN-FINDING: property={} {} [key={} observed={}]", ctx.property, f.what, f.key, n);
        }
    }
    // stale replay files of earlier runs are removed: replays/<ID> reflects this run only
    if let Ok(rd) = std::fs::read_dir(verif_root().join("replays").join(&ctx.property)) {
        for e in rd.flatten() {
            let _ = std::fs::remove_file(e.path());
        }
    }
    let mut harness_bug = false;
    let mut n_viol = 0;
    for (key, f) in violations.iter() {
        if key.starts_with("HARNESS:") {
            harness_bug = true;
            println!("INCONCLUSIVE: harness defect {key}: {}", f.detail);
            continue;
        }
        let path = write_replay(&ctx.property, f, ctx.tier, ctx.seed);
        println!("VIOLATION property={} replay={}", ctx.property, path.display());
        println!("  key: {key}");
        let d = f.detail.to_string();
        let mut cut = d.len().min(1500);
        while !d.is_char_boundary(cut) {
            cut -= 1;
        }
        println!("  detail: {}", &d[..cut]);
        n_viol += 1;
    }
    for e in infra.iter() {
        println!("INCONCLUSIVE: {e}");
    }

    // Evidence
    let mut samples: Vec<Value> = vec![];
    for (class, ss) in stats.samples.iter() {
        for s in ss {
            if samples.len() < 40 {
                samples.push(json!({"class": class, "case": s}));
            }
        }
    }
    if samples.is_empty() {
        samples.push(json!({"note": "no sample recorded"}));
    }
    let exhaustive = ctx.exhaustive.lock().unwrap();
    let known_list: Vec<Value> = known_seen.iter().map(|(k, n)| json!({"key": k, "cases": n})).collect();
    let ev = json!({
        "property_id": ctx.property,
        "tier": if ctx.tier == Tier::Quick { "quick" } else { "thorough" },
        "seed": ctx.seed,
        "level": "exploration",
        "coverage": {
            "evaluations": stats.evaluations,
            "distinct_nontrivial": stats.nontrivial.len(),
            "rule": *ctx.rule.lock().unwrap(),
            "samples": samples,
            "exhaustive": !exhaustive.is_empty(),
            "exhaustive_spaces": *exhaustive,
            "class_histogram": stats.classes,
            "discarded_cases": stats.discarded,
            "discarded_by_class": stats.discarded_classes,
            "excluded_by_avoidance_switches": stats.avoided,
            "known_finding_hits": known_list,
            "notes": *ctx.notes.lock().unwrap(),
        },
        "assumptions": *ctx.assumptions.lock().unwrap(),
        "wall_s": wall,
        "violations": n_viol,
    });
    let evdir = verif_root().join("evidence");
    let _ = std::fs::create_dir_all(&evdir);
    let evpath = evdir.join(format!("{}.json", ctx.property));
    std::fs::write(&evpath, serde_json::to_string_pretty(&ev).unwrap()).expect("cannot write evidence");
    println!(
        "property={} tier={:?} seed={} evaluations={} distinct_nontrivial={} violations={} known_keys_seen={} wall_s={:.1}",
        ctx.property,
        ctx.tier,
        ctx.seed,
        stats.evaluations,
        stats.nontrivial.len(),
        n_viol,
        known_seen.len(),
        wall
    );
    if n_viol > 0 {
        1
    } else if harness_bug || !infra.is_empty() {
        2
    } else {
        0
    }
}

/// Shorten long strings for keys.
pub fn clip(s: &str, n: usize) -> String {
    if s.len() <= n {
        return s.to_string();
    }
    let mut cut = n;
    while !s.is_char_boundary(cut) {
        cut -= 1;
    }
    format!("{}…", &s[..cut])
}
