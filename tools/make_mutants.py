#!/usr/bin/env python3
"""Developer tool: (re)generate /verif/mutants/*.patch from the table below by editing /repo,
taking `git diff`, and restoring the tree. Each entry: (property, name, file, old, new)."""
import subprocess, os, sys
R = "/repo"
M = [
 ("C01","param_list_progress","crates/oq3_parser/src/grammar/params.rs","        if p.position() == pos_before_item {\n            break;\n        }\n","        let _ = pos_before_item;\n"),
 ("C01","delay_designator_assert","crates/oq3_parser/src/grammar/items.rs","    if p.at(T!['[']) {\n        expressions::designator(p);\n    } else {\n        p.error(\"expected designator `[duration]` in delay statement\");\n    }","    expressions::designator(p);"),
 ("C04","shreq_raw_tokens","crates/oq3_parser/src/parser.rs","            T![...] | T![..=] | T![<<=] | T![>>=] => 3,","            T![...] | T![..=] | T![<<=] => 3,\n            T![>>=] => 2,"),
 ("C03","call_undefined_unwrap","crates/oq3_semantics/src/syntax_to_semantics.rs","            if symbol_result.is_ok() {\n                context.insert_error(IncompatibleTypesError, &subroutine_id);\n            }\n            return","            if symbol_result.is_ok() {\n                context.insert_error(IncompatibleTypesError, &subroutine_id);\n            }\n            let _ = symbol_result.clone().unwrap();\n            return"),
 ("C04","angle_designator","crates/oq3_parser/src/grammar/expressions.rs","        ANGLE_TY | BIT_TY | FLOAT_TY","        BIT_TY | FLOAT_TY"),
 ("C04","tilde_first","crates/oq3_parser/src/grammar/expressions.rs","    T![~],\n    T![.],","    T![.],"),
 ("C05","mul_add_swapped","crates/oq3_parser/src/grammar/expressions.rs","        T![%]                  => (12, T![%],   Left),","        T![%]                  => (11, T![%],   Left),"),
 ("C05","range_step_stop","crates/oq3_syntax/src/ast/expr_ext.rs","            // start:step:stop\n            (first, second, third)","            // start:step:stop\n            (first, third, second)"),
 ("C05","gate_params_swapped","crates/oq3_syntax/src/ast/expr_ext.rs","        if qubits_or_none.is_none() {\n            qubits_or_angles\n        } else {\n            qubits_or_none\n        }","        if qubits_or_none.is_none() {\n            qubits_or_angles\n        } else {\n            self.angles_and_or_qubits().0\n        }"),
 ("C06","shl_shr_swapped","crates/oq3_semantics/src/syntax_to_semantics.rs","                Shr => ArithOp(asg::ArithOp::Shr),","                Shr => ArithOp(asg::ArithOp::Shl),"),
 ("C06","case_bodies_reversed","crates/oq3_semantics/src/syntax_to_semantics.rs","                asg::CaseExpr::new(int_exprs, statements)\n            }).collect::<Vec<_>>();","                asg::CaseExpr::new(int_exprs, statements)\n            }).collect::<Vec<_>>().into_iter().rev().collect::<Vec<_>>();"),
 ("C06","modifiers_reversed","crates/oq3_semantics/src/syntax_to_semantics.rs","                })\n                .collect();\n\n            // `synast::ModifiedGateCallExpr` may wrap","                })\n                .collect::<Vec<_>>()\n                .into_iter()\n                .rev()\n                .collect();\n\n            // `synast::ModifiedGateCallExpr` may wrap"),
 ("C07","lookup_outermost_first","crates/oq3_semantics/src/symbols.rs","        for table in self.scope_symbol_table_stack.iter().rev() {","        for table in self.scope_symbol_table_stack.iter() {"),
 ("C07","else_shares_then_scope","crates/oq3_semantics/src/syntax_to_semantics.rs","            );\n            with_scope!(context,  ScopeType::Local,\n                        let else_branch = if_stmt.false_body_block_or_stmt().map(|bors| block_or_stmt_to_asg_type(bors, context));\n            );","                        let else_branch = if_stmt.false_body_block_or_stmt().map(|bors| block_or_stmt_to_asg_type(bors, context));\n            );"),
 ("C07","gate_name_bound_before_body","crates/oq3_semantics/src/syntax_to_semantics.rs","            let name_node = gate.name().unwrap();\n            // Here are three ways","            let name_node = gate.name().unwrap();\n            let _early = context.symbol_table.lookup_or_new_binding(name_node.string().as_ref(), &Type::Gate(0, 1));\n            // Here are three ways"),
 ("C08","right_operand_not_cast","crates/oq3_semantics/src/asg.rs","                let new_right = if &promoted_type == right_type {\n                    right\n                } else {","                let new_right = if &promoted_type == right_type || matches!(right_type, Type::UInt(..)) {\n                    right\n                } else {"),
 ("C08","bool_literal_not_const","crates/oq3_semantics/src/asg.rs","        TExpr::new(self.to_expr(), Type::Bool(IsConst::True))","        TExpr::new(self.to_expr(), Type::Bool(IsConst::False))"),
 ("C09","for_var_width_dropped","crates/oq3_semantics/src/syntax_to_semantics.rs","            let ty = scalar_type_to_type(&for_stmt.scalar_type().unwrap(), false, context);","            let ty = match scalar_type_to_type(&for_stmt.scalar_type().unwrap(), false, context) {\n                Type::UInt(_, c) => Type::UInt(None, c),\n                t => t,\n            };"),
 ("C09","stdgate_arity","crates/oq3_semantics/src/symbols.rs","        let g2q4p = (vec![\"cu\"], [4, 2]);","        let g2q4p = (vec![\"cu\"], [3, 2]);"),
 ("C10","octal_upper_prefix","crates/oq3_syntax/src/ast/token_ext.rs","            \"0o\" | \"0O\" => Radix::Octal,","            \"0o\" => Radix::Octal,"),
 ("C10","bitstring_width_counts_underscores","crates/oq3_semantics/src/asg.rs","            .filter(|c| *c == '0' || *c == '1')\n            .count();","            .filter(|c| *c == '0' || *c == '1' || *c == '_')\n            .count();"),
 ("C10","microsecond_unit","crates/oq3_semantics/src/syntax_to_semantics.rs","        synast::TimeUnit::MicroSecond => Some(asg::TimeUnit::MicroSecond),","        synast::TimeUnit::MicroSecond => Some(asg::TimeUnit::MilliSecond),"),
 ("C11","block_comment_error_dropped","crates/oq3_parser/src/lexed_str.rs","                if !terminated {\n                    err = \"Missing trailing `*/` symbols to terminate the block comment\";\n                }","                if !terminated && token_text.len() < 12 {\n                    err = \"Missing trailing `*/` symbols to terminate the block comment\";\n                }"),
 ("C11","included_syntax_errors_ignored","crates/oq3_source_file/src/source_file.rs","            || self\n                .included()\n                .iter()\n                .any(|inclusion| inclusion.have_syntax_errors())","            || self\n                .included()\n                .iter()\n                .take(1)\n                .any(|inclusion| inclusion.have_syntax_errors())"),
 ("C12","validation_offset","crates/oq3_syntax/src/validation.rs","        let off = token.text_range().start() + TextSize::try_from(off + prefix_len).unwrap();","        let off = token.text_range().end() + TextSize::try_from(off + prefix_len).unwrap();"),
 ("C13","def_arity_less_than","crates/oq3_semantics/src/syntax_to_semantics.rs","    if expected_num_params != num_params {\n        match call_expr.arg_list()","    if expected_num_params < num_params {\n        match call_expr.arg_list()"),
 ("C13","gate_qubits_not_checked_with_params","crates/oq3_semantics/src/syntax_to_semantics.rs","        if def_num_qubits != num_qubits {","        if def_num_qubits != num_qubits && num_params == 0 {"),
 ("C13","def_in_local_scope_ok","crates/oq3_semantics/src/syntax_to_semantics.rs","            let name_node = def_stmt.name().unwrap();\n            if !context.symbol_table().in_global_scope() {","            let name_node = def_stmt.name().unwrap();\n            if context.symbol_table().current_scope_type() == ScopeType::Subroutine {"),
 ("C15","void_keyword","crates/oq3_parser/src/syntax_kind/syntax_kind_enum.rs","            \"void\" => VOID_KW,","            \"voidd\" => VOID_KW,"),
 ("C15","dt_unit_lookahead","crates/oq3_lexer/src/lib.rs","                ('d', 't'),\n","",),
 ("C16","annotation_eats_identifier","crates/oq3_parser/src/grammar/expressions.rs","    if p.at(ANNOTATION) {\n        p.bump_any();","    if p.at(ANNOTATION) {\n        p.bump_any();\n        if p.at(T![end]) {\n            p.bump_any();\n        }"),
 ("C17","tab_not_whitespace","crates/oq3_lexer/src/lib.rs","        '\\u{0009}'   // \\t\n        | '\\u{000A}' // \\n","        '\\u{000A}' // \\n"),
 ("C02","composite3_trivia_glued","crates/oq3_parser/src/parser.rs","            && self.inp.is_joint(self.pos + n)\n            && self.inp.is_joint(self.pos + n + 1)","            && self.inp.is_joint(self.pos + n)"),
 ("C17","name_dependent_binding","crates/oq3_semantics/src/symbols.rs","        if self.current_scope_contains_name(name) {\n            return Err(SymbolError::AlreadyBound);","        if self.current_scope_contains_name(name) && !name.starts_with(\"zr\") {\n            return Err(SymbolError::AlreadyBound);"),
 ("C18","search_order_reversed","crates/oq3_source_file/src/source_file.rs","    if let Some(paths) = search_path_list {\n        for path in paths {","    if let Some(paths) = search_path_list {\n        for path in paths.iter().rev() {"),
 ("C18","env_consulted_despite_list","crates/oq3_source_file/src/source_file.rs","    } else if let Some(paths) = get_file_search_paths_from_env() {","    }\n    if let Some(paths) = get_file_search_paths_from_env() {"),
 ("C19","exit_pops_twice","crates/oq3_semantics/src/symbols.rs","        self.scope_symbol_table_stack.pop();\n    }","        self.scope_symbol_table_stack.pop();\n        if self.scope_symbol_table_stack.len() > 3 {\n            self.scope_symbol_table_stack.pop();\n        }\n    }"),
 ("C19","contains_checks_global","crates/oq3_semantics/src/symbols.rs","        self.current_scope().contains_name(name)","        self.current_scope().contains_name(name) || (self.scope_symbol_table_stack.len() > 2 && self.scope_symbol_table_stack[1].contains_name(name))"),
 ("C20","width_min","crates/oq3_semantics/src/types.rs","        (Some(width1), Some(width2)) => Some(std::cmp::max(width1, width2)),","        (Some(width1), Some(width2)) => Some(std::cmp::min(width1, width2)),"),
 ("C20","constness_or","crates/oq3_semantics/src/types.rs","    IsConst::from(ty1.is_const() && ty2.is_const())","    IsConst::from(ty1.is_const() || ty2.is_const())"),
 ("C20","literal_cast_float_to_int","crates/oq3_semantics/src/types.rs","        (Int(..), Float(..)) => false,","        (Int(..), Float(..)) => true,"),
]
os.makedirs("/verif/mutants", exist_ok=True)
for f in os.listdir("/verif/mutants"):
    if f.endswith(".patch"): os.remove(os.path.join("/verif/mutants", f))
assert subprocess.run(["git","-C",R,"status","--porcelain"],capture_output=True,text=True).stdout.strip()=="", "repo not clean"
for e in M:
    pid,name,file,old,new = e[0],e[1],e[2],e[3],(e[4] if len(e)>4 else "")
    p=os.path.join(R,file); s=open(p).read()
    if s.count(old)!=1:
        print("SKIP",pid,name,"count",s.count(old)); continue
    open(p,"w").write(s.replace(old,new))
    d=subprocess.run(["git","-C",R,"diff"],capture_output=True,text=True).stdout
    open(f"/verif/mutants/{pid}__{name}.patch","w").write(d)
    subprocess.run(["git","-C",R,"checkout","--","."])
print(len(os.listdir("/verif/mutants")),"patches")
