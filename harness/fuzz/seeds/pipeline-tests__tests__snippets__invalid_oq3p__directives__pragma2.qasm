// lex: ok
// parse: diag
// sema: skip

// pragmaa is an ordinary identifier
pragmaa 1 2 3
