// lex: ok
// parse: ok
// sema: panic

while (i < 10) {
  for uint j in {1, 4, 6} reset q[j];
  if (i == 8) break;
  else continue;
}
