#!/usr/bin/env python3
# Developer tool: print the source lines of one /repo file that no quick tier executed
# (from harness/target/cov/show.txt written by tools/coverage.sh). usage: cov_missed.py <path-suffix>
import sys,re
suffix=sys.argv[1]
cur=None
for line in open('/verif/harness/target/cov/show.txt',errors='replace'):
    if line.startswith('/') and line.rstrip().endswith(':'):
        cur=line.strip()[:-1]; continue
    if cur and cur.endswith(suffix):
        m=re.match(r'\s*(\d+)\|\s*([0-9.kMG]*)\|(.*)',line)
        if m and m.group(2)=='0':
            print(m.group(1).rjust(5), m.group(3)[:150])
