// Shared by the fuzz targets: run the in-process oracles; tolerate listed known findings;
// abort on anything else (the saved artifact is re-classified by `./check`).
use oq3_verif_harness::engine::{install_panic_hook, load_findings, Failure};
use std::collections::HashSet;
use std::sync::OnceLock;

static KNOWN: OnceLock<HashSet<String>> = OnceLock::new();

pub fn init() -> &'static HashSet<String> {
    KNOWN.get_or_init(|| {
        install_panic_hook();
        let mut k = HashSet::new();
        for p in ["C01", "C02", "C03", "C11", "C12", "C14"] {
            for f in load_findings(p) {
                if f.status == "known" {
                    k.insert(f.key);
                }
            }
        }
        k
    })
}

pub fn judge(fails: Vec<Failure>, wanted: &[&str]) {
    let known = init();
    for f in fails {
        if !wanted.iter().any(|w| f.key.starts_with(w)) {
            continue;
        }
        if known.contains(&f.key) {
            continue;
        }
        eprintln!("FUZZ-VIOLATION key={}", f.key);
        std::process::abort();
    }
}
