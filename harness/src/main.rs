#![allow(dead_code)]
//! oq3v — verification harness for Qiskit/openqasm3_parser (see /verif/DESIGN.md).
//!
//! usage: oq3v check <ID> [--tier quick|thorough] [--replay FILE]


use oq3_verif_harness::engine::*;
use oq3_verif_harness::*;
use serde_json::Value;

fn run_property(id: &str, ctx: &RunCtx) -> bool {
    match id {
        "C01" => textprops::run(textprops::P::C01, ctx),
        "C02" => textprops::run(textprops::P::C02, ctx),
        "C14" => textprops::run(textprops::P::C14, ctx),
        "C12" => {
            textprops::run(textprops::P::C12, ctx);
            semprops::run_c12_semantic(ctx);
            fsprops::run_c12_includes(ctx);
        }
        "C03" => pipeline::run_c03(ctx),
        "C06" => semprops::run_c06(ctx),
        "C07" => semprops::run_c07(ctx),
        "C13" => semprops::run_c13(ctx),
        "C17" => semprops::run_c17(ctx),
        "C04" => synprops::run_c04(ctx),
        "C05" => synprops::run_c05(ctx),
        "C16" => synprops::run_c16(ctx),
        "C08" => typeprops::run_c08(ctx),
        "C09" => typeprops::run_c09(ctx),
        "C10" => typeprops::run_c10(ctx),
        "C11" => c11::run(ctx),
        "C15" => lexprops::run_c15(ctx),
        "C18" => fsprops::run_c18(ctx),
        "C19" => c19::run(ctx),
        "C20" => c20::run(ctx),
        _ => return false,
    }
    true
}

/// Re-check one stored input without any generator. Returns the failures it still produces.
fn replay_input(id: &str, v: &Value) -> Result<Vec<Failure>, String> {
    let source = v["input"]["source"].as_str();
    match id {
        "C12" if v["choices"].is_array() && v["check"].as_str() == Some("include-arrangement") => fsprops::replay_arrangement("C12:", v),
        "C01" | "C02" | "C14" | "C12" => {
            let p = match id {
                "C01" => textprops::P::C01,
                "C02" => textprops::P::C02,
                "C12" => textprops::P::C12,
                _ => textprops::P::C14,
            };
            let s = source.ok_or("replay file has no input.source")?;
            let mut out = textprops::replay_text(p, s);
            if id == "C12" {
                semprops::check_c12_semantic(s, &mut out);
            }
            Ok(out)
        }
        "C19" => {
            let ops = c19::ops_from_json(&v["input"]["ops"]).ok_or("replay file has no valid input.ops")?;
            Ok(c19::replay_ops(&ops))
        }
        "C20" => c20::replay_types(v),
        "C15" => lexprops::replay_c15(v),
        "C11" => {
            if v["input"]["arrangement"].is_string() || (v["choices"].is_array() && v["check"].as_str() == Some("include-arrangement")) {
                fsprops::replay_arrangement("C11:", v)
            } else {
                c11::replay(v)
            }
        }
        "C18" => {
            if v["choices"].is_array() {
                fsprops::replay_arrangement("C18:", v)
            } else {
                let s = source.ok_or("replay file has neither choices nor input.source")?;
                let mut out = vec![];
                if pipeline::clean_parse(s) {
                    if let Err(p) = pipeline::analyze(s) {
                        out.push(Failure::new(format!("C18:{}", panic_key(&p)), serde_json::json!({"input": {"source": s}})));
                    }
                }
                Ok(out)
            }
        }
        "C03" => {
            if v["choices"].is_array() && v["check"].as_str() == Some("include-arrangement") {
                fsprops::replay_arrangement("C03:", v)
            } else if let (Some(c), Some(d)) = (v["input"]["construct"].as_str(), v["input"]["depth"].as_u64()) {
                let mut out = vec![];
                fsprops::check_c03_chain(c, d as usize, v["input"]["tail"].as_bool().unwrap_or(false), &mut out);
                fsprops::cleanup_work();
                Ok(out)
            } else {
                pipeline::replay_c03(v)
            }
        }
        "C06" | "C07" | "C13" => {
            if v["choices"].is_array() {
                semprops::replay_joint(id, v)
            } else {
                Err("replay needs choices".into())
            }
        }
        "C17" => semprops::replay_c17(v),
        "C08" => typeprops::replay_c08(v),
        "C09" => typeprops::replay_c09(v),
        "C10" => typeprops::replay_c10(v),
        "C04" => synprops::replay_c04(v),
        "C05" => synprops::replay_c05(v),
        "C16" => synprops::replay_c16(v),
        _ => Err(format!("no replay for {id}")),
    }
}

/// Replay tier: every committed finding of this property.
fn replay_tier(id: &str, ctx: &RunCtx) {
    let root = verif_root();
    for f in ctx.findings.clone() {
        let Some(rel) = &f.replay else { continue };
        let path = root.join(rel);
        let text = match std::fs::read_to_string(&path) {
            Ok(t) => t,
            Err(e) => {
                ctx.infra_errors.lock().unwrap().push(format!("cannot read finding replay {}: {e}", path.display()));
                continue;
            }
        };
        let v: Value = match serde_json::from_str(&text) {
            Ok(v) => v,
            Err(e) => {
                ctx.infra_errors.lock().unwrap().push(format!("bad JSON in {}: {e}", path.display()));
                continue;
            }
        };
        let fails = match guarded(|| replay_input(id, &v)) {
            Ok(Ok(fs)) => fs,
            Ok(Err(e)) => {
                ctx.infra_errors.lock().unwrap().push(e);
                continue;
            }
            Err(p) => vec![Failure::new(format!("{id}:replay:{}", panic_key(&p)), v.clone())],
        };
        let mut st = Stats::default();
        let mut rep = CaseReport::default();
        rep.class("replay-tier");
        rep.nontrivial = Some(fnv64(rel.as_bytes()));
        rep.failures = fails;
        ctx.eval_local(id, &mut st, rep);
        ctx.merge_stats(st);
    }
}

/// Run one noted text in a child process; Some(signal) if the child was killed by a signal.
fn probe_in_child(stage: u8, text: &str) -> Option<i32> {
    use std::os::unix::process::ExitStatusExt;
    let dir = verif_root().join("harness").join("target").join("work");
    let _ = std::fs::create_dir_all(&dir);
    let file = dir.join(format!("probe-{}-{}.txt", std::process::id(), fnv64(text.as_bytes())));
    std::fs::write(&file, text).ok()?;
    let exe = std::env::current_exe().ok()?;
    let child = std::process::Command::new(exe).arg("probe").arg(format!("{stage}")).arg(&file).env("VERIF_ROOT", verif_root()).stdout(std::process::Stdio::null()).stderr(std::process::Stdio::null()).spawn();
    let mut sig = None;
    if let Ok(mut c) = child {
        // a child that neither returns nor dies within a minute is a hang, which is reported as
        // inconclusive by the caller (never as a violation)
        let t0 = std::time::Instant::now();
        loop {
            match c.try_wait() {
                Ok(Some(s)) => {
                    sig = s.signal();
                    break;
                }
                Ok(None) if t0.elapsed().as_secs() > 60 => {
                    let _ = c.kill();
                    let _ = c.wait();
                    println!("INCONCLUSIVE: a fresh process does not return within 60 s on the input {:?}", text.chars().take(200).collect::<String>());
                    break;
                }
                Ok(None) => std::thread::sleep(std::time::Duration::from_millis(50)),
                Err(_) => break,
            }
        }
    }
    let _ = std::fs::remove_file(&file);
    sig
}

/// After an abnormal death of the harness: attribute it to a noted text if one of them kills a
/// fresh process again. Returns the exit code for `./check`.
fn aftermath(id: &str, pid: u32) -> i32 {
    let slots = read_slots(pid);
    let _ = std::fs::remove_dir_all(slots_dir(pid));
    let mut code = 2;
    for (stage, text) in slots {
        if let Some(sig) = probe_in_child(stage, &text) {
            // a death inside lexing/parsing is C01's subject, inside the analysis C03's
            let owner = if stage == 1 { "C01" } else { "C03" };
            let key = format!("{owner}:abort:signal-{sig}:{}", if stage == 1 { "parse" } else { "analysis" });
            if owner == id {
                let ctx = RunCtx::new(id, Tier::Quick, 0);
                if ctx.is_known(&key) {
                    println!("KNOWN-FINDING: property={id} key={key}");
                    continue;
                }
                let f = Failure::new(key.clone(), serde_json::json!({"input": {"source": text}, "actual": format!("the process was killed by signal {sig} (stack overflow or abort) while handling this input")}));
                let path = write_replay(id, &f, Tier::Quick, 0);
                println!("VIOLATION property={id} replay={}", path.display());
                println!("  key: {key}");
                code = 1;
            } else {
                println!("INCONCLUSIVE: the process was killed by signal {sig} while handling an input; this is {owner}'s subject (run ./check {owner}); input: {:?}", text.chars().take(200).collect::<String>());
            }
        }
    }
    if code == 2 {
        println!("INCONCLUSIVE: the harness process died and no noted input reproduces the death in isolation");
    }
    code
}

fn main() {
    for (k, _) in std::env::vars() {
        if k.starts_with("PROPTEST_") {
            std::env::remove_var(k);
        }
    }
    let args: Vec<String> = std::env::args().collect();
    if args.len() >= 3 && args[1] == "tree" {
        install_panic_hook();
        let text = args[2].replace("\\n", "\n");
        let (green, errs) = oq3_syntax::parse_text(&text);
        let root = oq3_syntax::SyntaxNode::new_root(green);
        println!("{:#?}", root);
        for e in errs {
            println!("error {:?}: {}", e.range(), e.message());
        }
        for (which, what) in astabs::accessor_disagreements(&root) {
            println!("accessor disagreement {which}: {what}");
        }
        return;
    }
    if args.len() >= 4 && args[1] == "probe" {
        // child of `aftermath` / of an abort replay: hand one text to the stage that was running
        // when a process died; exits 0 when the code under test returns (or merely panics)
        let text = std::fs::read_to_string(&args[3]).unwrap_or_default();
        let stage = args[2].clone();
        install_panic_hook();
        let child = std::thread::Builder::new().stack_size(512 << 20).spawn(move || {
            if stage == "2" {
                let _ = pipeline::analyze(&text);
            } else {
                let mut out = vec![];
                let _ = textprops::oracle_text(&text, &mut out);
            }
        });
        let _ = child.unwrap().join();
        return;
    }
    if args.len() >= 4 && args[1] == "aftermath" {
        // `./check` calls this after the harness process <pid> died abnormally
        let id = args[2].clone();
        let pid: u32 = args[3].parse().unwrap_or(0);
        std::process::exit(aftermath(&id, pid));
    }
    if args.len() >= 3 && args[1] == "parsetime" {
        // developer view: wall time of the public parse entry point on a file (no printing)
        let text = std::fs::read_to_string(&args[2]).expect("readable file");
        let child = std::thread::Builder::new().stack_size(1 << 30).spawn(move || {
            let t = std::time::Instant::now();
            let p = oq3_syntax::SourceFile::parse(&text);
            let parse_s = t.elapsed().as_secs_f64();
            let n = p.syntax_node().descendants().count();
            println!("bytes={} nodes={} errors={} parse_s={:.3}", text.len(), n, p.errors().len(), parse_s);
            std::mem::forget(p);
        });
        child.unwrap().join().unwrap();
        return;
    }
    if args.len() >= 2 && args[1] == "stmtforms" {
        // developer aid: statement forms of the C04/C05/C16 matrices that do not parse alone
        for (name, st) in synprops::stmt_forms() {
            let seed = [0u32; 0];
            let mut src = Src::new(&seed);
            let text = synprops::print_program(&mut src, std::slice::from_ref(&st), layout::Style::Spaced).text;
            let p = oq3_syntax::SourceFile::parse(&text);
            if !p.errors().is_empty() {
                println!("{name}: {text}\n   {:?}", p.errors());
            }
        }
        return;
    }
    if args.len() >= 3 && args[1] == "forms" {
        // developer aid: print the fixed / matrix programs whose name contains the argument and
        // what the joint walk says about them
        let mut progs = semforms::fixed_programs();
        progs.extend(semforms::probe_matrix());
        for (name, prog) in progs.iter().filter(|(n, _)| n.contains(args[2].as_str())) {
            let seed = [0u32; 0];
            let mut src = Src::new(&seed);
            let pr = synprops::print_program(&mut src, prog, layout::Style::Spaced);
            println!("=== {name}\n{}", pr.text);
            match semprops::joint(prog, &pr) {
                None => println!("--> not a clean parse: {:?}", oq3_syntax::SourceFile::parse(&pr.text).errors()),
                Some(j) if j.crashed => println!("--> analysis crashed"),
                Some(j) => {
                    for f in &j.fails {
                        println!("--> {} {}", f.key, f.detail.get("expected").map(|x| x.to_string()).unwrap_or_default());
                    }
                }
            }
        }
        return;
    }
    if args.len() >= 3 && args[1] == "sema" {
        let text = args[2].replace("\\n", "\n");
        let r = oq3_semantics::syntax_to_semantics::parse_source_string(&text, None);
        println!("syntax errors: {}", r.any_syntax_errors());
        r.print_errors();
        r.program().print_asg_debug_pretty();
        r.symbol_table().dump();
        return;
    }
    if args.len() < 3 || args[1] != "check" {
        eprintln!("usage: oq3v check <ID> [--tier quick|thorough] [--replay FILE]");
        std::process::exit(2);
    }
    let id = args[2].clone();
    let mut tier = match std::env::var("VERIF_TIER").ok().as_deref() {
        Some("thorough") => Tier::Thorough,
        _ => Tier::Quick,
    };
    let mut replay: Option<String> = None;
    let mut i = 3;
    while i < args.len() {
        match args[i].as_str() {
            "--tier" => {
                i += 1;
                tier = if args.get(i).map(|s| s.as_str()) == Some("thorough") { Tier::Thorough } else { Tier::Quick };
            }
            "--replay" => {
                i += 1;
                replay = args.get(i).cloned();
            }
            other => {
                eprintln!("unknown argument {other}");
                std::process::exit(2);
            }
        }
        i += 1;
    }
    let seed: u64 = std::env::var("VERIF_SEED").ok().and_then(|s| s.trim().parse::<i128>().ok()).map(|v| v as u64).unwrap_or(0);

    install_panic_hook();
    set_memory_limit(40);
    start_watchdog();
    let threads: usize = std::env::var("VERIF_THREADS").ok().and_then(|s| s.parse().ok()).unwrap_or(16);
    rayon::ThreadPoolBuilder::new()
        .num_threads(threads)
        .stack_size(512 << 20)
        .build_global()
        .expect("rayon pool");

    if let Some(path) = replay {
        // Strict single-input replay.
        let text = std::fs::read_to_string(&path).unwrap_or_else(|e| {
            println!("INCONCLUSIVE: cannot read {path}: {e}");
            std::process::exit(2)
        });
        let v: Value = serde_json::from_str(&text).unwrap_or_else(|e| {
            println!("INCONCLUSIVE: bad JSON {path}: {e}");
            std::process::exit(2)
        });
        let ctx = RunCtx::new(&id, tier, seed);
        if v["key"].as_str().map(|k| k.contains(":abort:")).unwrap_or(false) {
            let text = v["input"]["source"].as_str().unwrap_or("");
            let stage = if v["key"].as_str().unwrap_or("").ends_with(":parse") { 1 } else { 2 };
            match probe_in_child(stage, text) {
                Some(sig) => {
                    println!("VIOLATION property={id} replay={path}");
                    println!("  key: {}", v["key"].as_str().unwrap_or(""));
                    println!("  the process is killed by signal {sig} on this input");
                    std::process::exit(1);
                }
                None => {
                    println!("replay: property {id} holds on {path}");
                    std::process::exit(0);
                }
            }
        }
        let code = rayon::scope(|_| match guarded(|| replay_input(&id, &v)) {
            Ok(Ok(fails)) => {
                let mut code = 0;
                for f in fails {
                    if ctx.is_known(&f.key) {
                        println!("KNOWN-FINDING: property={id} key={}", f.key);
                    } else {
                        println!("VIOLATION property={id} replay={path}");
                        println!("  key: {}", f.key);
                        code = 1;
                    }
                }
                if code == 0 {
                    println!("replay: property {id} holds on {path}");
                }
                code
            }
            Ok(Err(e)) => {
                println!("INCONCLUSIVE: {e}");
                2
            }
            Err(p) => {
                println!("VIOLATION property={id} replay={path}");
                println!("  key: {id}:replay:{}", panic_key(&p));
                1
            }
        });
        std::process::exit(code);
    }

    let ctx = RunCtx::new(&id, tier, seed);
    // Run everything inside the pool so that the deep-nesting probes get the large stacks.
    let known = rayon::scope(|_| {
        replay_tier(&id, &ctx);
        // developer switch: only the libFuzzer campaigns of the thorough tier
        let k = if std::env::var("VERIF_ONLY_FUZZ").is_ok() && tier == Tier::Thorough { true } else { run_property(&id, &ctx) };
        if k && tier == Tier::Thorough {
            // coverage-guided campaigns behind the same oracles (see DESIGN.md, "Fuzz targets")
            let (targets, runs): (&[&str], u64) = match id.as_str() {
                "C01" | "C02" => (&["fz_text", "fz_tokens"], 60_000),
                "C14" => (&["fz_text"], 120_000),
                "C12" => (&["fz_text", "fz_tokens", "fz_model"], 40_000),
                "C11" => (&["fz_text", "fz_sema", "fz_model"], 40_000),
                "C03" => (&["fz_sema", "fz_model"], 60_000),
                _ => (&[], 0),
            };
            if !targets.is_empty() {
                fuzzrun::campaign(&ctx, targets, runs);
            }
        }
        k
    });
    if !known {
        println!("INCONCLUSIVE: unknown property {id}");
        std::process::exit(2);
    }
    let code = finish(&ctx);
    std::process::exit(code);
}
