// lex: ok
// parse: ok
// sema: skip

array[uint[16], 1] x;
array[int[8], 4] x;
array[float[64], 4, 2] x;
array[angle[32], 4, 3, 2] x;
array[complex[float[32]], 4] x;
array[bool, 3] x;
array[int[8], 4] x = {1, 2, 3, 4};
array[int[8], 4] x = y;
array[int[8], 2] x = {y, y+y};
array[uint[32], 2, 2] x = {{3, 4}, {2-3, 5*y}};
array[uint[32], 2, 2] x = {z, {2-3, 5*y}};
array[uint[32], 2, 2] x = {2*z, {1, 2}};
array[uint[32], 2, 2] x = y;
