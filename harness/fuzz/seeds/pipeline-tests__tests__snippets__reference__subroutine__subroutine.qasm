// lex: ok
// parse: ok
// sema: skip

def test_sub1(int[5] i, qubit[2] q1, qreg q2[5]) -> int[10] {
  int[10] result;
  if (result == 2) return 1 + result;
  return result;
}
def test_sub2(int[5] i, bit[2] b, creg c[3]) {
  for int[5] j in {2, 3}
    i += j;
  return i+1;
}
def returns_a_measure(qubit q) {
  return measure q;
}
