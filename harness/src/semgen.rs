//! G-model, semantic profile: programs of the supported subset generated with an environment so
//! that by default every use is in scope and well-typed; fault injection perturbs chosen sites
//! (DESIGN.md §4.4). The expected outcome is recomputed from the term by semcheck.rs, so the
//! generator's environment only steers the distribution.

use crate::engine::Src;
use crate::model::*;

#[derive(Clone, Debug, PartialEq)]
pub enum STy {
    Int(Option<u32>),
    UInt(Option<u32>),
    Float(Option<u32>),
    Angle(Option<u32>),
    Complex(Option<u32>),
    Bool,
    Bit,
    BitReg(u32),
    Duration,
}

#[derive(Clone, Debug, PartialEq)]
pub enum EKind {
    Var { ty: STy, konst: bool },
    Qubit,
    QReg(u32),
    Gate(usize, usize),
    Def(Vec<Option<STy>>, Option<STy>), // parameter types (None = qubit), return type
    Alias,
}

#[derive(Clone, Debug)]
pub struct Profile {
    /// probability (percent) that a site is perturbed
    pub fault_pct: usize,
    /// reuse names across scopes, collide with built-ins and standard gates
    pub scope_stress: bool,
    /// exercise usage rules (arity, operand kinds, const mutation, scope kind)
    pub usage: bool,
    /// declarations and assignments are exactly typed (no other source of type diagnostics)
    pub typed_exact: bool,
    /// avoid constructs covered by listed known findings
    pub avoid_known: bool,
    pub unicode_names: bool,
    pub max_depth: usize,
    pub max_top: usize,
}

impl Profile {
    pub fn plain() -> Profile {
        Profile { fault_pct: 0, scope_stress: false, usage: false, typed_exact: true, avoid_known: true, unicode_names: false, max_depth: 3, max_top: 10 }
    }
    pub fn faulty() -> Profile {
        Profile { fault_pct: 12, scope_stress: true, usage: true, typed_exact: false, avoid_known: true, unicode_names: true, max_depth: 3, max_top: 10 }
    }
    pub fn scope_stress() -> Profile {
        Profile { fault_pct: 15, scope_stress: true, usage: false, typed_exact: true, avoid_known: true, unicode_names: false, max_depth: 5, max_top: 8 }
    }
    pub fn usage() -> Profile {
        Profile { fault_pct: 20, scope_stress: false, usage: true, typed_exact: true, avoid_known: true, unicode_names: false, max_depth: 3, max_top: 10 }
    }
}

const VARS: &[&str] = &["a", "b", "c", "x", "y", "z", "n", "m", "k1", "v_2"];
const UVARS: &[&str] = &["θ", "φ2", "é", "変数", "λ_"];
const QUBITS: &[&str] = &["q", "r", "anc", "qq"];
const GATES: &[&str] = &["g", "g2", "mygate", "bell"];
const DEFS: &[&str] = &["f", "sub", "fn3"];
const COLLIDE: &[&str] = &["pi", "U", "h", "cx", "tau", "rz", "π", "τ", "ℇ"];
const STD1: &[(&str, usize, usize)] = &[
    ("x", 0, 1), ("h", 0, 1), ("s", 0, 1), ("sdg", 0, 1), ("t", 0, 1), ("sx", 0, 1), ("id", 0, 1), ("p", 1, 1), ("rx", 1, 1),
    ("rz", 1, 1), ("phase", 1, 1), ("u2", 2, 1), ("u3", 3, 1), ("cx", 0, 2), ("cz", 0, 2), ("swap", 0, 2), ("CX", 0, 2),
    ("cp", 1, 2), ("crz", 1, 2), ("cu", 4, 2), ("ccx", 0, 3), ("cswap", 0, 3),
];

pub struct SGen<'a, 'b> {
    pub src: &'a mut Src<'b>,
    pub p: Profile,
    scopes: Vec<Vec<(String, EKind)>>,
    global: Vec<bool>, // is scope i "global" for the implementation's purposes
    pub stdgates: bool,
    counter: usize,
    in_def: bool,
    in_loop: bool,
    pub n_faults: usize,
    item_mode: bool,
}

fn lit_int(v: u32) -> Expr {
    Expr::Int(v.to_string())
}
fn bx(e: Expr) -> Box<Expr> {
    Box::new(e)
}

pub fn sty_to_ty(t: &STy) -> Ty {
    let w = |w: &Option<u32>| w.map(|n| bx(lit_int(n)));
    match t {
        STy::Int(x) => Ty::Int(w(x)),
        STy::UInt(x) => Ty::UInt(w(x)),
        STy::Float(x) => Ty::Float(w(x)),
        STy::Angle(x) => Ty::Angle(w(x)),
        STy::Complex(None) => Ty::Complex(None),
        STy::Complex(Some(n)) => Ty::Complex(Some(Some(bx(lit_int(*n))))),
        STy::Bool => Ty::Bool,
        STy::Bit => Ty::Bit(None),
        STy::BitReg(n) => Ty::Bit(Some(bx(lit_int(*n)))),
        STy::Duration => Ty::Duration,
    }
}

impl<'a, 'b> SGen<'a, 'b> {
    pub fn new(src: &'a mut Src<'b>, p: Profile) -> Self {
        SGen { src, p, scopes: vec![vec![]], global: vec![true], stdgates: false, counter: 0, in_def: false, in_loop: false, n_faults: 0, item_mode: true }
    }

    fn fault(&mut self) -> bool {
        if self.p.fault_pct == 0 {
            return false;
        }
        let f = self.src.below(100) >= 100 - self.p.fault_pct;
        if f {
            self.n_faults += 1;
        }
        f
    }

    fn visible(&self, pred: impl Fn(&EKind) -> bool) -> Vec<(String, EKind)> {
        let mut out: Vec<(String, EKind)> = vec![];
        let mut seen: Vec<String> = vec![];
        for sc in self.scopes.iter().rev() {
            for (n, k) in sc.iter().rev() {
                if seen.contains(n) {
                    continue;
                }
                seen.push(n.clone());
                if pred(k) {
                    out.push((n.clone(), k.clone()));
                }
            }
        }
        if self.stdgates {
            for (n, np, nq) in STD1 {
                if !seen.iter().any(|s| s == n) && pred(&EKind::Gate(*np, *nq)) {
                    out.push((n.to_string(), EKind::Gate(*np, *nq)));
                }
            }
        }
        if !seen.iter().any(|s| s == "U") && pred(&EKind::Gate(3, 1)) {
            out.push(("U".to_string(), EKind::Gate(3, 1)));
        }
        out
    }

    fn is_visible(&self, name: &str) -> bool {
        self.scopes.iter().any(|s| s.iter().any(|(n, _)| n == name))
            || ["pi", "π", "euler", "ℇ", "tau", "τ", "U"].contains(&name)
            || (self.stdgates && crate::semcheck::STD_GATES.iter().any(|(n, _, _)| *n == name))
    }

    fn in_current(&self, name: &str) -> bool {
        self.scopes.last().unwrap().iter().any(|(n, _)| n == name)
            || (self.scopes.len() == 1 && (["pi", "π", "euler", "ℇ", "tau", "τ", "U"].contains(&name) || (self.stdgates && crate::semcheck::STD_GATES.iter().any(|(n, _, _)| *n == name))))
    }

    fn bind(&mut self, name: &str, k: EKind) {
        if !self.in_current(name) {
            self.scopes.last_mut().unwrap().push((name.to_string(), k));
        }
    }

    /// A name for a new declaration: fresh by default; with scope stress, sometimes a name
    /// that is visible (shadowing / duplicate) or a built-in.
    fn decl_name(&mut self, pool: &[&str]) -> String {
        if self.p.scope_stress && self.src.chance(1, 3) {
            // reuse: visible name (shadow or duplicate) or a colliding built-in
            if self.src.chance(1, 4) {
                return COLLIDE[self.src.below(COLLIDE.len())].to_string();
            }
            return pool[self.src.below(pool.len().min(4))].to_string();
        }
        if self.fault() {
            // duplicate in the current scope if there is one
            let cur: Vec<String> = self.scopes.last().unwrap().iter().map(|(n, _)| n.clone()).collect();
            if !cur.is_empty() {
                return cur[self.src.below(cur.len())].clone();
            }
        }
        // fresh
        for _ in 0..8 {
            let base = if self.p.unicode_names && self.src.chance(1, 5) { UVARS[self.src.below(UVARS.len())] } else { pool[self.src.below(pool.len())] };
            if !self.is_visible(base) {
                return base.to_string();
            }
        }
        self.counter += 1;
        format!("{}_{}", pool[0], self.counter)
    }

    fn undeclared(&mut self) -> String {
        for cand in ["undef", "zz", "w9", "ghost", "q_x"] {
            if !self.is_visible(cand) {
                return cand.to_string();
            }
        }
        self.counter += 1;
        format!("nope_{}", self.counter)
    }

    fn rand_sty(&mut self) -> STy {
        let w = |s: &mut Src| -> Option<u32> {
            match s.below(5) {
                0 | 1 => None,
                2 => Some(8),
                3 => Some(32),
                _ => Some(64),
            }
        };
        match self.src.weighted(&[6, 3, 5, 2, 2, 3, 2, 2, 2]) {
            0 => STy::Int(w(self.src)),
            1 => STy::UInt(w(self.src)),
            2 => STy::Float(w(self.src)),
            3 => STy::Angle(w(self.src)),
            4 => STy::Complex(if self.src.bool() { None } else { Some(64) }),
            5 => STy::Bool,
            6 => STy::Bit,
            7 => STy::BitReg(1 + self.src.below(4) as u32),
            _ => STy::Duration,
        }
    }

    fn literal_of(&mut self, t: &STy) -> Option<Expr> {
        Some(match t {
            STy::Int(_) => {
                if self.src.chance(1, 4) {
                    Expr::Un(UnOp::Neg, bx(lit_int(1 + self.src.below(99) as u32)))
                } else {
                    [
                        Expr::Int("0".into()),
                        Expr::Int("7".into()),
                        Expr::Int("0x1F".into()),
                        Expr::Int("0b101".into()),
                        Expr::Int("1_000".into()),
                        lit_int(self.src.below(500) as u32),
                        Expr::Int("0XfF".into()),
                        Expr::Int("0B1_0".into()),
                        Expr::Int("0o17".into()),
                        Expr::Int("0O7_7".into()),
                        Expr::Int("0_1".into()),
                        Expr::Int("00".into()),
                        Expr::Int("0xdead_BEEF".into()),
                    ][self.src.below(13)]
                    .clone()
                }
            }
            STy::UInt(_) => lit_int(self.src.below(500) as u32),
            STy::Float(_) => {
                if self.src.chance(1, 4) {
                    lit_int(self.src.below(9) as u32)
                } else {
                    [
                        Expr::Float("1.5".into()),
                        Expr::Float("0.25".into()),
                        Expr::Float("2e3".into()),
                        Expr::Float(".5".into()),
                        Expr::Un(UnOp::Neg, bx(Expr::Float("3.5".into()))),
                        Expr::Float("1E3".into()),
                        Expr::Float(".5E-3".into()),
                        Expr::Float("7.".into()),
                        Expr::Float("1.e+2".into()),
                        Expr::Float("2_0.2_5".into()),
                        Expr::Float("0_1.5".into()),
                        Expr::Un(UnOp::Neg, bx(Expr::Float(".25".into()))),
                        Expr::Float("25E-1".into()),
                    ][self.src.below(13)]
                    .clone()
                }
            }
            STy::Complex(_) => [
                Expr::Imag("2.5".into(), true, false),
                Expr::Float("1.5".into()),
                lit_int(3),
                Expr::Imag("0.5".into(), true, true),
                Expr::Imag("3".into(), false, false),
                Expr::Un(UnOp::Neg, bx(Expr::Imag("4".into(), false, false))),
                Expr::Un(UnOp::Neg, bx(Expr::Imag("1.5".into(), true, false))),
                Expr::Imag("7".into(), false, true),
                Expr::Imag(".5".into(), true, false),
                Expr::Imag("1E2".into(), true, false),
                Expr::Imag("0x10".into(), false, true),
                Expr::Un(UnOp::Neg, bx(Expr::Imag(".5".into(), true, true))),
            ][self.src.below(12)]
            .clone(),
            STy::Bool => Expr::Bool(self.src.bool()),
            STy::BitReg(n) => {
                let q = if self.src.chance(1, 4) { '\'' } else { '"' };
                let mut s = String::from(q);
                for i in 0..*n {
                    s.push(if self.src.bool() { '1' } else { '0' });
                    // single underscores between bits do not count as bits
                    if i + 1 < *n && self.src.chance(1, 4) {
                        s.push('_');
                    }
                }
                s.push(q);
                Expr::BitStr(s)
            }
            STy::Duration => {
                let unit = ["ns", "us", "ms", "s", "dt", "µs"][self.src.below(6)].to_string();
                let n = 1 + self.src.below(200);
                match self.src.below(11) {
                    0 | 1 | 2 => Expr::Timing(format!("{n}"), false, unit, false),
                    3 => Expr::Timing(format!("{n}.5"), true, unit, false),
                    4 => Expr::Un(UnOp::Neg, bx(Expr::Timing(format!("{n}"), false, unit, false))),
                    5 => Expr::Timing(format!("{n}"), false, unit, true),
                    6 => Expr::Timing(".5".into(), true, unit, false),
                    7 => Expr::Timing(format!("{n}E1"), true, unit, false),
                    8 => Expr::Timing(format!("0_{n}"), false, unit, false),
                    9 => Expr::Un(UnOp::Neg, bx(Expr::Timing(".25".into(), true, unit, true))),
                    _ => Expr::Timing(format!("{n}.e-1"), true, unit, false),
                }
            }
            STy::Angle(_) | STy::Bit => return None,
        })
    }

    fn var_of(&mut self, t: &STy) -> Option<Expr> {
        let vs = self.visible(|k| matches!(k, EKind::Var { ty, .. } if ty == t));
        if vs.is_empty() {
            None
        } else {
            Some(Expr::Ident(vs[self.src.below(vs.len())].0.clone()))
        }
    }

    fn any_var(&mut self) -> Option<(String, STy, bool)> {
        let vs = self.visible(|k| matches!(k, EKind::Var { .. }));
        if vs.is_empty() {
            return None;
        }
        let (n, k) = vs[self.src.below(vs.len())].clone();
        match k {
            EKind::Var { ty, konst } => Some((n, ty, konst)),
            _ => None,
        }
    }

    fn qubit_operand(&mut self) -> Operand {
        if self.p.usage && self.fault() {
            // classical symbol in a quantum position
            if let Some((n, _, _)) = self.any_var() {
                return Operand::Id(n);
            }
        }
        if self.fault() && !self.p.usage {
            // an undeclared operand, plain or indexed (the same few names and indices recur)
            let n = self.undeclared();
            return if self.src.chance(1, 3) { Operand::Indexed(n, vec![Index::List(vec![IndexItem::Expr(lit_int(self.src.below(2) as u32))])]) } else { Operand::Id(n) };
        }
        let qs = self.visible(|k| matches!(k, EKind::Qubit | EKind::QReg(_)));
        if qs.is_empty() || self.src.chance(1, 10) {
            return Operand::Hw(format!("${}", self.src.below(6)));
        }
        let (n, k) = qs[self.src.below(qs.len())].clone();
        match k {
            EKind::QReg(len) if self.src.chance(2, 3) => {
                let ix = if self.src.chance(1, 5) && len > 1 {
                    Index::List(vec![IndexItem::Range(lit_int(0), None, lit_int(len - 1))])
                } else {
                    Index::List(vec![IndexItem::Expr(lit_int(self.src.below(len as usize) as u32))])
                };
                Operand::Indexed(n, vec![ix])
            }
            _ => Operand::Id(n),
        }
    }

    /// A single qubit (never a register or an indexed register: the analyser types `q[i]` as
    /// the whole register, a listed known finding).
    fn scalar_qubit(&mut self) -> Operand {
        let qs = self.visible(|k| matches!(k, EKind::Qubit));
        if qs.is_empty() {
            return Operand::Hw(format!("${}", self.src.below(6)));
        }
        Operand::Id(qs[self.src.below(qs.len())].0.clone())
    }

    fn numeric_expr(&mut self, depth: usize) -> Expr {
        let t = [STy::Int(None), STy::Float(None), STy::Int(Some(32)), STy::UInt(None)][self.src.below(4)].clone();
        self.expr_of(&t, depth)
    }

    /// An expression of type `t` (exactly, up to const-ness) in the current environment.
    pub fn expr_of(&mut self, t: &STy, depth: usize) -> Expr {
        if self.fault() && !self.p.typed_exact {
            // ill-typed value
            let other = self.rand_sty();
            if &other != t {
                return self.expr_of_inner(&other, depth);
            }
        }
        if self.fault() && !self.p.usage {
            return Expr::Ident(self.undeclared());
        }
        self.expr_of_inner(t, depth)
    }

    fn expr_of_inner(&mut self, t: &STy, depth: usize) -> Expr {
        let leaf = depth >= 3;
        let arith = matches!(t, STy::Int(_) | STy::UInt(_) | STy::Float(_) | STy::Complex(_));
        let k = self.src.weighted(&[6, 6, if leaf { 0 } else { 2 }, if leaf || !arith { 0 } else { 5 }, if leaf { 0 } else { 2 }, if leaf { 0 } else { 2 }]);
        match k {
            0 => {
                if let Some(l) = self.literal_of(t) {
                    return l;
                }
                self.var_or_cast(t, depth)
            }
            1 => self.var_or_cast(t, depth),
            2 => Expr::Paren(bx(self.expr_of_inner(t, depth + 1))),
            3 => {
                // arithmetic among variables of exactly this type (promotion is then trivial)
                let (Some(l), Some(r)) = (self.var_of(t), self.var_of(t)) else { return self.var_or_cast(t, depth) };
                let ops: &[BinOp] = match t {
                    STy::Float(_) => &[BinOp::Add, BinOp::Sub, BinOp::Mul, BinOp::Div],
                    STy::Complex(_) => &[BinOp::Add, BinOp::Sub, BinOp::Mul],
                    _ => &[BinOp::Add, BinOp::Sub, BinOp::Mul, BinOp::Rem, BinOp::BitAnd, BinOp::BitOr, BinOp::BitXor, BinOp::Shl, BinOp::Shr],
                };
                let op = ops[self.src.below(ops.len())];
                let l = if self.src.chance(1, 4) { Expr::Paren(bx(l)) } else { l };
                Expr::Bin(op, bx(l), bx(r))
            }
            4 => {
                // explicit cast to exactly this type
                if matches!(t, STy::Duration | STy::BitReg(_) | STy::Bit) {
                    return self.var_or_cast(t, depth);
                }
                let inner = self.numeric_expr(depth + 1);
                Expr::Cast(sty_to_ty(t), bx(inner))
            }
            _ => {
                // call of a subroutine returning this type
                let ds = self.visible(|k| matches!(k, EKind::Def(_, Some(r)) if r == t));
                if ds.is_empty() {
                    return self.var_or_cast(t, depth);
                }
                let (n, k) = ds[self.src.below(ds.len())].clone();
                let EKind::Def(ps, _) = k else { unreachable!() };
                self.call(&n, &ps, depth)
            }
        }
    }

    fn call(&mut self, name: &str, ps: &[Option<STy>], depth: usize) -> Expr {
        let mut args: Vec<Expr> = vec![];
        for p in ps {
            match p {
                Some(t) => args.push(self.expr_of_inner(t, depth + 1)),
                None => {
                    let qs = self.visible(|k| matches!(k, EKind::Qubit));
                    args.push(match qs.first() {
                        Some((n, _)) => Expr::Ident(n.clone()),
                        None => Expr::Hw("$0".into()),
                    });
                }
            }
        }
        if self.p.usage && self.fault() {
            if self.src.bool() && !args.is_empty() {
                args.pop();
            } else {
                args.push(lit_int(1));
            }
        }
        Expr::Call(name.to_string(), args)
    }

    fn var_or_cast(&mut self, t: &STy, depth: usize) -> Expr {
        if let Some(v) = self.var_of(t) {
            return v;
        }
        if let Some(l) = self.literal_of(t) {
            return l;
        }
        match t {
            STy::Angle(_) => {
                // no literal class is castable to angle: use an explicit cast
                Expr::Cast(sty_to_ty(t), bx(Expr::Float("0.5".into())))
            }
            STy::Bit => Expr::Measure(self.scalar_qubit()),
            _ => {
                let _ = depth;
                Expr::Cast(sty_to_ty(t), bx(lit_int(1)))
            }
        }
    }

    fn condition(&mut self) -> Expr {
        if self.p.usage && self.src.chance(1, 6) {
            // an ordering comparison or logical operator (which the analyser does not represent)
            // whose operands contain ordinary, possibly rule-violating, sub-expressions: the
            // rules apply inside them all the same
            let t = [STy::Int(None), STy::Float(None)][self.src.below(2)].clone();
            let l = self.expr_of(&t, 1);
            let r = self.expr_of(&t, 2);
            let op = [BinOp::Lt, BinOp::Le, BinOp::Gt, BinOp::Ge, BinOp::LogAnd, BinOp::LogOr][self.src.below(6)];
            return Expr::Bin(op, bx(l), bx(r));
        }
        match self.src.below(4) {
            0 => self.expr_of(&STy::Bool, 1),
            1 => {
                let t = [STy::Int(None), STy::Float(None), STy::Int(Some(32))][self.src.below(3)].clone();
                let l = self.expr_of(&t, 2);
                let r = self.expr_of(&t, 2);
                Expr::Bin(if self.src.bool() { BinOp::Eq } else { BinOp::Neq }, bx(l), bx(r))
            }
            2 => self.expr_of(&STy::Int(None), 2),
            _ => {
                if let Some((n, _, _)) = self.any_var() {
                    Expr::Ident(n)
                } else {
                    Expr::Bool(true)
                }
            }
        }
    }

    // ---------------- statements ----------------

    fn classical_decl(&mut self) -> Stmt {
        let ty = self.rand_sty();
        let konst = self.src.chance(1, 5) && !matches!(ty, STy::Bit | STy::Angle(_));
        let init = if konst || self.src.chance(3, 5) {
            match &ty {
                STy::Bit if self.src.chance(2, 3) => Some(Expr::Measure(self.scalar_qubit())),
                _ => Some(self.expr_of(&ty, 0)),
            }
        } else {
            None
        };
        let name = self.decl_name(VARS);
        self.bind(&name, EKind::Var { ty: ty.clone(), konst });
        Stmt::ClassicalDecl { konst, ty: sty_to_ty(&ty), name, init }
    }

    fn assign(&mut self) -> Stmt {
        let target = if self.p.usage && self.fault() {
            // const mutation
            let cs = self.visible(|k| matches!(k, EKind::Var { konst: true, .. }));
            cs.first().map(|(n, k)| (n.clone(), k.clone()))
        } else {
            None
        };
        let pick = target.or_else(|| {
            let vs = self.visible(|k| matches!(k, EKind::Var { konst: false, .. }));
            if vs.is_empty() {
                None
            } else {
                Some(vs[self.src.below(vs.len())].clone())
            }
        });
        let Some((name, EKind::Var { ty, .. })) = pick else {
            return Stmt::Barrier(vec![self.qubit_operand()]);
        };
        let name = if self.fault() && !self.p.usage { self.undeclared() } else { name };
        // usage profile: a value of a kind the target never accepts (float literal into
        // int/uint/bool/duration, boolean literal into float), alone or on top of a const mutation
        if self.p.usage && self.src.chance(1, 8) {
            let bad = match &ty {
                STy::Int(_) | STy::UInt(_) | STy::Bool | STy::Duration => Some(Expr::Float("2.5".into())),
                STy::Float(_) => Some(Expr::Bool(true)),
                _ => None,
            };
            if let Some(value) = bad {
                return Stmt::Assign { target: LValue::Id(name), op: AssignOp::Assign, value };
            }
        }
        let mut value = match &ty {
            STy::Bit if self.src.bool() => Expr::Measure(self.scalar_qubit()),
            // integer-literal assignments are typed by a separate path: use variables/casts here
            _ => {
                let e = self.expr_of(&ty, 1);
                // with exact typing, literal values are only assigned where the assignment path
                // accepts them without narrowing (bool, duration, float without width)
                let literal = matches!(strip(&e), Expr::Int(_) | Expr::Float(_) | Expr::Un(..) | Expr::Imag(..) | Expr::BitStr(_));
                if self.p.typed_exact && literal && !matches!(ty, STy::Float(None)) {
                    self.var_or_nonliteral(&ty)
                } else {
                    e
                }
            }
        };
        if self.p.avoid_known && matches!(value, Expr::Bin(..)) {
            value = Expr::Paren(bx(value));
        }
        Stmt::Assign { target: LValue::Id(name), op: AssignOp::Assign, value }
    }

    fn var_or_nonliteral(&mut self, t: &STy) -> Expr {
        if let Some(v) = self.var_of(t) {
            return v;
        }
        match t {
            STy::Duration | STy::Bool => self.literal_of(t).unwrap(),
            STy::Float(None) => Expr::Float("1.5".into()),
            STy::Bit => Expr::Measure(self.scalar_qubit()),
            _ => Expr::Cast(sty_to_ty(t), bx(Expr::Int("1".into()))),
        }
    }

    fn gate_call(&mut self, only: Option<&[String]>) -> Stmt {
        let gs = self.visible(|k| matches!(k, EKind::Gate(..)));
        let (mut name, np, nq) = if gs.is_empty() {
            ("U".to_string(), 3, 1)
        } else {
            let (n, k) = gs[self.src.below(gs.len())].clone();
            let EKind::Gate(a, b) = k else { unreachable!() };
            (n, a, b)
        };
        let mut np_given = np;
        let mut nq_given = nq;
        if self.p.usage && self.fault() {
            match self.src.below(4) {
                0 => np_given = np + 1,
                1 if np > 0 => np_given = np - 1,
                2 => nq_given = nq + 1,
                _ if nq > 1 => nq_given = nq - 1,
                _ => nq_given = nq + 1,
            }
        }
        if self.fault() {
            if self.p.usage && self.src.bool() {
                // non-gate callee
                if let Some((n, _, _)) = self.any_var() {
                    name = n;
                }
            } else {
                name = self.undeclared();
            }
        }
        let mods: Vec<Modifier> = if self.src.chance(1, 4) {
            (0..1 + self.src.below(2))
                .map(|_| match self.src.below(if self.p.usage { 2 } else { 4 }) {
                    0 => Modifier::Inv,
                    1 => Modifier::Pow(self.expr_of_inner(&STy::Int(None), 2)),
                    2 => Modifier::Ctrl(if self.src.bool() { Some(lit_int(1)) } else { None }),
                    _ => Modifier::NegCtrl(None),
                })
                .collect()
        } else {
            vec![]
        };
        let n_ctrl = mods.iter().filter(|m| matches!(m, Modifier::Ctrl(_) | Modifier::NegCtrl(_))).count();
        // no parameters: written without a list or, one time in three, with empty parentheses
        let args = if np_given > 0 {
            Some((0..np_given).map(|_| self.expr_of_inner(&STy::Float(None), 2)).collect())
        } else if self.src.chance(1, 3) {
            Some(vec![])
        } else {
            None
        };
        let operands: Vec<Operand> = (0..nq_given + n_ctrl)
            .map(|i| match only {
                Some(qs) => Operand::Id(qs[i % qs.len()].clone()),
                None => self.qubit_operand(),
            })
            .collect();
        Stmt::GateCall { mods, name, args, operands }
    }

    fn simple(&mut self) -> Stmt {
        match self.src.weighted(&[8, 6, 2, 2, 2, 2, 1, if self.in_loop { 2 } else { 0 }, if self.in_def { 2 } else { 0 }, 2, 1, 2, 2]) {
            11 => {
                // expression statement led by an identifier, a minus sign or a parenthesis
                let vs = self.visible(|k| matches!(k, EKind::Var { ty: STy::Int(_) | STy::Float(_), .. }));
                if vs.is_empty() {
                    return self.gate_call(None);
                }
                let x = Expr::Ident(vs[self.src.below(vs.len())].0.clone());
                if self.p.usage && self.fault() {
                    // a quantum value (declared qubit / register or hardware qubit) as operand of
                    // a binary operator, on either side or on both
                    let qs = self.visible(|k| matches!(k, EKind::Qubit | EKind::QReg(_)));
                    let mut quantum = |g: &mut Self| -> Expr {
                        if qs.is_empty() || g.src.bool() {
                            Expr::Hw(format!("${}", g.src.below(4)))
                        } else {
                            Expr::Ident(qs[g.src.below(qs.len())].0.clone())
                        }
                    };
                    let op = [BinOp::Add, BinOp::Mul, BinOp::Eq, BinOp::Neq, BinOp::Sub][self.src.below(5)];
                    let l = quantum(self);
                    let e = match self.src.below(3) {
                        0 => Expr::Bin(op, bx(l), bx(x)),
                        1 => Expr::Bin(op, bx(x), bx(l)),
                        _ => {
                            let r = quantum(self);
                            Expr::Bin(op, bx(l), bx(r))
                        }
                    };
                    return Stmt::ExprStmt(e);
                }
                Stmt::ExprStmt(match self.src.below(3) {
                    0 => Expr::Un(UnOp::Neg, bx(x)),
                    1 => Expr::Paren(bx(x)),
                    _ => x,
                })
            }
            12 => {
                // assignment to one element of a bit register
                let vs = self.visible(|k| matches!(k, EKind::Var { ty: STy::BitReg(_), konst: false }));
                if vs.is_empty() {
                    return self.gate_call(None);
                }
                let (name, k) = vs[self.src.below(vs.len())].clone();
                let EKind::Var { ty: STy::BitReg(n), .. } = k else { unreachable!() };
                let i = self.src.below(n as usize) as u32;
                Stmt::Assign { target: LValue::Indexed(name, vec![Index::List(vec![IndexItem::Expr(lit_int(i))])]), op: AssignOp::Assign, value: Expr::Measure(self.scalar_qubit()) }
            }
            0 => self.gate_call(None),
            1 => self.assign(),
            2 => Stmt::Reset(self.qubit_operand()),
            3 => Stmt::Barrier((0..1 + self.src.below(3)).map(|_| self.qubit_operand()).collect()),
            4 => Stmt::MeasureStmt(self.qubit_operand()),
            5 => {
                let d = if self.p.usage && self.fault() {
                    // non-duration designator
                    [lit_int(5), Expr::Float("2.5".into())][self.src.below(2)].clone()
                } else {
                    self.var_or_nonliteral(&STy::Duration)
                };
                Stmt::Delay(d, (0..self.src.below(3)).map(|_| self.qubit_operand()).collect())
            }
            6 => Stmt::End,
            7 => {
                if self.src.bool() {
                    Stmt::Break
                } else {
                    Stmt::Continue
                }
            }
            8 => Stmt::Return(if self.src.bool() { Some(self.expr_of_inner(&STy::Int(None), 2)) } else { None }),
            9 => {
                // subroutine call statement
                let ds = self.visible(|k| matches!(k, EKind::Def(..)));
                if ds.is_empty() {
                    return self.gate_call(None);
                }
                let (n, k) = ds[self.src.below(ds.len())].clone();
                let EKind::Def(ps, _) = k else { unreachable!() };
                Stmt::ExprStmt(self.call(&n, &ps, 1))
            }
            _ => Stmt::GPhase { mods: if self.src.chance(1, 3) { vec![Modifier::Inv] } else { vec![] }, arg: self.expr_of_inner(&STy::Float(None), 2), operands: vec![] },
        }
    }

    fn with_scope<T>(&mut self, f: impl FnOnce(&mut Self) -> T) -> T {
        self.scopes.push(vec![]);
        self.global.push(false);
        let r = f(self);
        self.scopes.pop();
        self.global.pop();
        r
    }

    fn body(&mut self, depth: usize) -> Body {
        if self.src.chance(3, 4) {
            let n = self.src.below(4);
            Body::Block((0..n).map(|_| self.stmt(depth + 1)).collect())
        } else {
            // a single statement without braces: mostly a simple statement (never something
            // starting with an identifier after an expression iterable: handled by the caller);
            // sometimes a declaration, which is local to the body's own scope; with the usage
            // profile sometimes a declaration that belongs at global scope, or a `return`
            let s = match self.src.below(8) {
                0 => self.classical_decl(),
                1 if self.p.usage && self.fault() => match self.src.below(4) {
                    0 => self.qubit_decl(),
                    1 => self.gate_def(),
                    2 => self.def_def(depth + 1),
                    _ => Stmt::Return(None),
                },
                _ => self.simple(),
            };
            Body::Single(Box::new(s))
        }
    }

    fn control(&mut self, depth: usize) -> Stmt {
        match self.src.below(4) {
            0 => {
                let cond = self.condition();
                let then = self.with_scope(|g| g.body(depth));
                let els = if self.src.bool() { Some(self.with_scope(|g| g.body(depth))) } else { None };
                Stmt::If { cond, then, els }
            }
            1 => {
                let cond = self.condition();
                let was = self.in_loop;
                self.in_loop = true;
                let body = self.with_scope(|g| g.body(depth));
                self.in_loop = was;
                Stmt::While { cond, body }
            }
            2 => {
                let ty = [STy::Int(None), STy::UInt(Some(8)), STy::Int(Some(32)), STy::Float(None)][self.src.below(4)].clone();
                let iter = match self.src.below(3) {
                    0 => ForIter::Range(lit_int(0), if self.src.chance(1, 3) { Some(lit_int(2)) } else { None }, self.expr_of_inner(&STy::Int(None), 2)),
                    1 => ForIter::Set((0..1 + self.src.below(3)).map(|_| self.expr_of_inner(&STy::Int(None), 2)).collect()),
                    _ => ForIter::Range(self.expr_of_inner(&STy::Int(None), 2), None, lit_int(9)),
                };
                let var = self.decl_name(&["i", "j", "k", "idx"]);
                let was = self.in_loop;
                self.in_loop = true;
                let body = self.with_scope(|g| {
                    g.bind(&var, EKind::Var { ty: ty.clone(), konst: false });
                    g.body(depth)
                });
                self.in_loop = was;
                Stmt::For { ty: sty_to_ty(&ty), var, iter, body }
            }
            _ => {
                let control = self.expr_of(&STy::Int(None), 1);
                let n = self.src.below(3);
                let cases: Vec<(Vec<Expr>, Vec<Stmt>)> = (0..n)
                    .map(|i| {
                        let vals = (0..1 + self.src.below(2)).map(|j| lit_int((i * 3 + j) as u32)).collect();
                        let body = self.with_scope(|g| (0..g.src.below(3)).map(|_| g.stmt(depth + 1)).collect());
                        (vals, body)
                    })
                    .collect();
                let default = if self.src.bool() || cases.is_empty() { Some(self.with_scope(|g| (0..g.src.below(3)).map(|_| g.stmt(depth + 1)).collect())) } else { None };
                Stmt::Switch { control, cases, default }
            }
        }
    }

    fn gate_def(&mut self) -> Stmt {
        let np = self.src.below(5);
        let nq = 1 + self.src.below(4);
        let pnames = ["t0", "t1", "t2", "t3"];
        let qnames = ["q0", "q1", "q2", "q3"];
        let params: Option<Vec<String>> = if np > 0 { Some((0..np.min(4)).map(|i| pnames[i].to_string()).collect()) } else { None };
        let mut qubits: Vec<String> = (0..nq).map(|i| qnames[i].to_string()).collect();
        if self.p.scope_stress && self.fault() && nq > 1 {
            qubits[1] = qubits[0].clone(); // duplicate parameter
        }
        let npar = params.as_ref().map(|p| p.len()).unwrap_or(0);
        let body = self.with_scope(|g| {
            if let Some(ps) = &params {
                for p in ps {
                    g.bind(p, EKind::Var { ty: STy::Angle(None), konst: true });
                }
            }
            for q in &qubits {
                g.bind(q, EKind::Qubit);
            }
            let n = g.src.below(4);
            (0..n)
                .map(|_| match g.src.below(6) {
                    0 => Stmt::GPhase { mods: vec![], arg: Expr::Float("0.5".into()), operands: vec![] },
                    1 => Stmt::Barrier(qubits.iter().map(|q| Operand::Id(q.clone())).collect()),
                    _ => g.gate_call(Some(&qubits)),
                })
                .collect::<Vec<_>>()
        });
        let name = self.decl_name(GATES);
        self.bind(&name, EKind::Gate(npar, qubits.len()));
        Stmt::Gate { name, params, qubits, body }
    }

    fn def_def(&mut self, depth: usize) -> Stmt {
        let np = self.src.below(4);
        let pn = ["p0", "p1", "p2"];
        let mut ptys: Vec<Option<STy>> = vec![];
        let params: Vec<(ParamTy, String)> = (0..np)
            .map(|i| {
                if self.src.chance(1, 3) {
                    ptys.push(None);
                    (ParamTy::Qubit(None), pn[i].to_string())
                } else {
                    let t = [STy::Int(None), STy::Float(None), STy::Int(Some(32)), STy::Bool, STy::Bit][self.src.below(5)].clone();
                    ptys.push(Some(t.clone()));
                    (ParamTy::Scalar(sty_to_ty(&t)), pn[i].to_string())
                }
            })
            .collect();
        let ret: Option<STy> = if self.src.bool() { Some([STy::Int(None), STy::Float(None), STy::Bit, STy::Bool, STy::Int(Some(32))][self.src.below(5)].clone()) } else { None };
        let was_def = self.in_def;
        let was_loop = self.in_loop;
        self.in_def = true;
        self.in_loop = false;
        let ptys2 = ptys.clone();
        let ret2 = ret.clone();
        let body = self.with_scope(|g| {
            for ((_, n), t) in params.iter().zip(ptys2.iter()) {
                match t {
                    Some(t) => g.bind(n, EKind::Var { ty: t.clone(), konst: false }),
                    None => g.bind(n, EKind::Qubit),
                }
            }
            let n = g.src.below(4);
            let mut b: Vec<Stmt> = (0..n).map(|_| g.stmt(depth + 1)).collect();
            if let Some(r) = &ret2 {
                let e = match r {
                    STy::Bit => Expr::Measure(g.scalar_qubit()),
                    _ => g.expr_of_inner(r, 1),
                };
                b.push(Stmt::Return(Some(e)));
            }
            b
        });
        self.in_def = was_def;
        self.in_loop = was_loop;
        let name = self.decl_name(DEFS);
        self.bind(&name, EKind::Def(ptys, ret.clone()));
        Stmt::Def { name, params, ret: ret.map(|r| sty_to_ty(&r)), body }
    }

    fn qubit_decl(&mut self) -> Stmt {
        let name = self.decl_name(QUBITS);
        if self.src.chance(2, 5) {
            let n = 1 + self.src.below(5) as u32;
            self.bind(&name, EKind::QReg(n));
            Stmt::QubitDecl { size: Some(lit_int(n)), name }
        } else {
            self.bind(&name, EKind::Qubit);
            Stmt::QubitDecl { size: None, name }
        }
    }

    pub fn stmt(&mut self, depth: usize) -> Stmt {
        let top = depth == 0;
        let nest = depth < self.p.max_depth;
        // declarations of qubits / gates / subroutines belong at global scope; with the usage
        // profile they are sometimes placed below it
        let misplace = self.p.usage && !top && self.fault();
        let w_global = if top || misplace { 3 } else { 0 };
        let w_ret_global = if top && self.p.usage && self.p.fault_pct > 0 { 1 } else { 0 };
        match self.src.weighted(&[10, 8, if nest { 5 } else { 0 }, w_global, w_global, w_global, w_ret_global, if top { 1 } else { 0 }, if top { 1 } else { 0 }]) {
            0 => self.simple(),
            1 => self.classical_decl(),
            2 => self.control(depth),
            3 => self.qubit_decl(),
            4 => self.gate_def(),
            5 => self.def_def(depth),
            6 => Stmt::Return(None),
            7 => Stmt::Pragma(format!("pragma {}", ["", "x y", "user a.b"][self.src.below(3)])),
            _ => {
                let inner = if self.src.bool() { self.classical_decl() } else { self.gate_call(None) };
                Stmt::Annotated(vec![format!("@{}", ["bind", "note a b", "opt 1"][self.src.below(3)])], Box::new(inner))
            }
        }
    }

    pub fn program(&mut self) -> Vec<Stmt> {
        let mut v = vec![];
        // with scope stress the include may come later (after user declarations that collide with
        // standard gate names) or twice
        let late_include = self.p.scope_stress && self.src.chance(1, 3);
        if !late_include && self.src.chance(1, 2) {
            v.push(Stmt::Include("stdgates.inc".into()));
            self.stdgates = true;
        }
        // a few declarations first so that uses have something to refer to
        let n_q = 1 + self.src.below(3);
        for _ in 0..n_q {
            v.push(self.qubit_decl());
        }
        // aliases of declared qubits / registers (file level, before any expression-like statement;
        // the alias names are fresh and never used again)
        if self.src.chance(1, 4) {
            let qs = self.visible(|k| matches!(k, EKind::Qubit | EKind::QReg(_)));
            if !qs.is_empty() {
                let (q, k) = qs[self.src.below(qs.len())].clone();
                let value = match k {
                    EKind::QReg(n) if n >= 2 && self.src.bool() => Expr::IndexedId(q, vec![Index::List(vec![IndexItem::Range(lit_int(0), None, lit_int(n - 1))])]),
                    _ => Expr::Ident(q),
                };
                v.push(Stmt::Alias { name: format!("al{}", v.len()), value });
            }
        }
        // input / output declarations
        if self.src.chance(1, 4) {
            let ty = [STy::Int(None), STy::Float(Some(64)), STy::Angle(Some(32)), STy::Bool, STy::Int(Some(8))][self.src.below(5)].clone();
            let input = self.src.bool();
            let name = self.decl_name(VARS);
            self.bind(&name, EKind::Var { ty: ty.clone(), konst: false });
            v.push(Stmt::IoDecl { input, ty: sty_to_ty(&ty), name });
        }
        let n_c = self.src.below(4);
        for _ in 0..n_c {
            v.push(self.classical_decl());
        }
        let n = 1 + self.src.below(self.p.max_top);
        let include_at = if late_include { Some(self.src.below(n)) } else { None };
        for i in 0..n {
            if include_at == Some(i) || (self.p.scope_stress && self.stdgates && self.src.chance(1, 25)) {
                v.push(Stmt::Include("stdgates.inc".into()));
                self.stdgates = true;
            }
            let s = self.stmt(0);
            v.push(s);
        }
        v
    }
}

fn strip(e: &Expr) -> &Expr {
    let mut e = e;
    while let Expr::Paren(x) = e {
        e = x;
    }
    e
}

pub fn gen_program(src: &mut Src, p: &Profile) -> Vec<Stmt> {
    let mut g = SGen::new(src, p.clone());
    g.program()
}
