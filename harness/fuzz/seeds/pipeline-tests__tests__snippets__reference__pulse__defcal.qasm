// lex: todo
// parse: todo
// sema: skip

defcal x $0 {}
defcal measure $0 -> bit {Outer {nested} outer}
defcal rz(angle[20] theta) q {£$&£*(")}
defcal rz(pi / 2) q {Symbolic expression.}
