//! C18 (includes act as in-place textual inclusion with ordered path search), the include parts
//! of C11 (gating) and C12 (spans of diagnostics raised inside included files).

use crate::engine::*;
use crate::pipeline::all_semantic_errors;
use oq3_semantics::semantic_error::SemanticErrorList;
use oq3_semantics::symbols::SymbolType;
use oq3_semantics::syntax_to_semantics::{parse_source_file, parse_source_file_with_search, parse_source_string_with_path_search};
use oq3_source_file::{SourceFile, SourceTrait};
use serde_json::json;
use std::collections::BTreeMap;
use std::path::{Path, PathBuf};
use std::sync::atomic::{AtomicU64, Ordering};
use std::sync::RwLock;

static ENV_LOCK: RwLock<()> = RwLock::new(());
static CASE_ID: AtomicU64 = AtomicU64::new(0);

fn work_root() -> PathBuf {
    verif_root().join("harness").join("target").join("work").join(format!("{}", std::process::id()))
}

pub fn cleanup_work() {
    // everything of this process except the crash slots (engine::note_case), which stay mapped
    if let Ok(rd) = std::fs::read_dir(work_root()) {
        for e in rd.flatten() {
            if e.file_name() != "slots" {
                let _ = std::fs::remove_dir_all(e.path());
            }
        }
    }
}

/// Analyse `main` (given as a string) with the named files laid out in one fresh directory that is
/// passed as the only search path. Used by the include-split variants of C06/C07.
pub fn analyze_with_files(main: &str, files: &[(String, String)]) -> Result<crate::pipeline::Analysis, PanicInfo> {
    // one directory per worker thread, files overwritten per case (the main text only names files
    // written for this case)
    thread_local! {
        static DIR: PathBuf = {
            let id = CASE_ID.fetch_add(1, Ordering::Relaxed);
            let root = work_root().join(format!("s{id}"));
            let _ = std::fs::create_dir_all(&root);
            root
        };
    }
    let root = DIR.with(|d| d.clone());
    for (n, body) in files {
        let _ = std::fs::write(root.join(n), body);
    }
    let _g = ENV_LOCK.read().unwrap();
    let dirs = [root];
    guarded(|| parse_source_string_with_path_search(main, Some("main.qasm"), Some(&dirs[..])))
}

#[derive(Clone, Debug)]
pub struct FileSpec {
    /// name as written in include statements (may contain a sub directory)
    pub name: String,
    /// directories (indices) that contain a copy
    pub dirs: Vec<usize>,
    /// body template: `{M}` is replaced by a marker unique per (file, dir) copy
    pub body: String,
    pub has_semantic_fault: bool,
    pub has_syntax_fault: bool,
}

#[derive(Clone, Debug)]
pub struct Arrangement {
    pub n_dirs: usize,
    pub files: Vec<FileSpec>,
    pub main: String,
    /// search list as directory indices; None = no list given
    pub search: Option<Vec<usize>>,
    /// QASM3_PATH as directory indices (only consulted when `search` is None)
    pub env: Option<Vec<usize>>,
    pub entry: Entry,
    pub decoy_stdgates: bool,
}

#[derive(Clone, Copy, Debug, PartialEq)]
pub enum Entry {
    StringWithSearch,
    FileWithSearch,
    FilePlain,
}

const NAMES: &[&str] = &["a.inc", "b.qasm", "lib/c.inc", "d.inc"];

fn marker(file: usize, dir: usize) -> String {
    format!("mk_f{file}_d{dir}")
}

pub fn gen_arrangement(src: &mut Src) -> Arrangement {
    let n_dirs = 1 + src.below(3);
    let n_files = 1 + src.below(4);
    let mut files: Vec<FileSpec> = vec![];
    for f in 0..n_files {
        let mut dirs: Vec<usize> = (0..n_dirs).filter(|_| src.chance(3, 5)).collect();
        if dirs.is_empty() && src.chance(4, 5) {
            dirs.push(src.below(n_dirs));
        }
        let has_semantic_fault = src.chance(1, 5);
        let has_syntax_fault = src.chance(1, 12);
        let mut body = String::new();
        // nested include of a later file (no cycles)
        if f + 1 < n_files && src.chance(2, 5) {
            body.push_str(&format!("include \"{}\";\n", NAMES[f + 1 + src.below(n_files - f - 1)]));
        }
        body.push_str("int {M} = 1;\n");
        match src.below(4) {
            0 => body.push_str(&format!("gate g{f} q {{ U(0, 0, 0) q; }}\n")),
            1 => body.push_str(&format!("def fn{f}(int a) -> int {{ return a; }}\n")),
            2 => body.push_str(&format!("const int c{f} = {};\nint[c{f}] w{f};\n", 4 + f)),
            _ => body.push_str(&format!("qubit qf{f};\n")),
        }
        if has_semantic_fault {
            body.push_str(["undeclared_name = 1;\n", "int {M} = 2;\n", "qubit zq; U(1) zq;\n"][src.below(3)]);
        }
        if has_syntax_fault {
            body.push_str(["int = ;\n", "gate {\n", "x = (1;\n"][src.below(3)]);
        }
        files.push(FileSpec { name: NAMES[f].to_string(), dirs, body, has_semantic_fault, has_syntax_fault });
    }
    // main program
    let mut main = String::new();
    if src.bool() {
        main.push_str("include \"stdgates.inc\";\n");
    }
    main.push_str("int before = 0;\nqubit mq;\n");
    let n_inc = 1 + src.below(3);
    for _ in 0..n_inc {
        let f = src.below(n_files);
        match src.below(10) {
            0 => main.push_str("include \"missing_file.inc\";\n"),
            1 => main.push_str(&format!("if (true) {{ include \"{}\"; }}\n", files[f].name)),
            _ => main.push_str(&format!("include \"{}\";\n", files[f].name)),
        }
        if src.bool() {
            main.push_str(&format!("before = {};\n", src.below(9)));
        }
    }
    // uses after the includes (may or may not resolve, both analyses must agree)
    main.push_str("int after = before;\n");
    for f in 0..n_files {
        if src.chance(1, 2) {
            main.push_str(&format!("g{f} mq;\n"));
        }
        if src.chance(1, 3) {
            main.push_str(&format!("after = fn{f}(after);\n"));
        }
        if src.chance(1, 3) {
            main.push_str(&format!("after = (after + {});\n", marker(f, src.below(n_dirs))));
        }
    }
    if src.chance(1, 4) {
        main.push_str("h mq;\n");
    }
    let entry = [Entry::StringWithSearch, Entry::StringWithSearch, Entry::FileWithSearch, Entry::FilePlain][src.below(4)];
    let mut order: Vec<usize> = (0..n_dirs).collect();
    // random permutation of the directories
    for i in (1..order.len()).rev() {
        order.swap(i, src.below(i + 1));
    }
    let k = 1 + src.below(n_dirs);
    let list: Vec<usize> = order[..k].to_vec();
    let (search, env) = match (entry, src.below(4)) {
        (Entry::FilePlain, 0) => (None, None),
        (Entry::FilePlain, _) => (None, Some(list)),
        (_, 0) => (None, Some(list)),
        (_, 1) => (None, None),
        (_, _) => {
            // a list is given: the environment must not be consulted even if set
            let env = if src.bool() { Some(order.iter().rev().cloned().collect()) } else { None };
            (Some(list), env)
        }
    };
    let decoy_stdgates = src.chance(1, 4);
    // Appended draws (so that earlier choice sequences still decode to the same arrangement):
    // some relative includes become absolute paths of one particular copy (which may not exist).
    let absolutise = |text: &str, src: &mut Src| -> String {
        let mut out = String::new();
        for line in text.lines() {
            if let Some(name) = line.strip_prefix("include \"").and_then(|r| r.strip_suffix("\";")) {
                if let Some(f) = NAMES.iter().position(|n| *n == name) {
                    if src.chance(1, 5) {
                        let d = src.below(n_dirs);
                        out.push_str(&format!("include \"{{ABS:{f}:{d}}}\";\n"));
                        continue;
                    }
                }
            }
            out.push_str(line);
            out.push('\n');
        }
        out
    };
    let main = absolutise(&main, src);
    for f in files.iter_mut() {
        f.body = absolutise(&f.body, src);
    }
    // more appended draws: state that crosses a file boundary — an included file may end in an
    // annotation line (it then belongs to the statement after the include site) or in a pragma
    for (i, f) in files.iter_mut().enumerate() {
        if f.has_syntax_fault {
            continue;
        }
        match src.below(8) {
            1 => f.body.push_str(&format!("@tail{i} of file\n")),
            2 => f.body.push_str("pragma end of file\n"),
            3 => f.body = format!("@head{i}\n{}", f.body),
            _ => {}
        }
    }
    // more appended draws: a file defines a gate named like a library gate, and the library is
    // (also) included after the files — the clash is then reported in another file than the one
    // that holds the definition
    let mut main = main;
    let mut any_clash = false;
    for f in files.iter_mut() {
        if f.has_syntax_fault {
            continue;
        }
        if src.chance(1, 6) {
            f.body.push_str(["gate h a { }\n", "gate cx a, b { }\n", "gate swap a, b { }\n"][src.below(3)]);
            any_clash = true;
        }
    }
    if any_clash || src.chance(1, 8) {
        main.push_str("include \"stdgates.inc\";\n");
    }
    // more appended draws: a construct the analyser does not support (reported, with a
    // placeholder in the graph), at any include depth
    for (i, f) in files.iter_mut().enumerate() {
        if f.has_syntax_fault {
            continue;
        }
        match src.below(10) {
            1 => f.body.push_str(&format!("bool un{i} = 1 < 2;\n")),
            2 => f.body.push_str(&format!("array[int, 3] ua{i};\n")),
            _ => {}
        }
    }
    Arrangement { n_dirs, files, main, search, env, entry, decoy_stdgates }
}

struct Laid {
    root: PathBuf,
    dirs: Vec<PathBuf>,
    /// main text with `{ABS:f:d}` replaced by the absolute path of that copy
    main: String,
}

fn subst_abs(text: &str, dirs: &[PathBuf]) -> String {
    let mut out = text.to_string();
    for (f, name) in NAMES.iter().enumerate() {
        for (d, dir) in dirs.iter().enumerate() {
            let pat = format!("{{ABS:{f}:{d}}}");
            if out.contains(&pat) {
                out = out.replace(&pat, &dir.join(name).display().to_string());
            }
        }
    }
    out
}

fn materialise(a: &Arrangement) -> std::io::Result<Laid> {
    let id = CASE_ID.fetch_add(1, Ordering::Relaxed);
    let root = work_root().join(format!("c{id}"));
    std::fs::create_dir_all(&root)?;
    let root = std::fs::canonicalize(&root)?;
    let mut dirs = vec![];
    for d in 0..a.n_dirs {
        let p = root.join(format!("d{d}"));
        std::fs::create_dir_all(p.join("lib"))?;
        dirs.push(p);
    }
    for (fi, f) in a.files.iter().enumerate() {
        for d in &f.dirs {
            std::fs::write(dirs[*d].join(&f.name), subst_abs(&f.body.replace("{M}", &marker(fi, *d)), &dirs))?;
        }
    }
    if a.decoy_stdgates {
        std::fs::write(dirs[0].join("stdgates.inc"), "int decoy_stdgates_was_read = 1;\n")?;
    }
    std::fs::create_dir_all(root.join("main"))?;
    let main = subst_abs(&a.main, &dirs);
    std::fs::write(root.join("main").join("main.qasm"), &main)?;
    Ok(Laid { root, dirs, main })
}

/// Reference resolution rule.
fn resolve(a: &Arrangement, l: &Laid, name: &str) -> Option<PathBuf> {
    let p = Path::new(name);
    if p.is_absolute() {
        return if p.is_file() { Some(p.to_path_buf()) } else { None };
    }
    let order: Vec<usize> = match (&a.search, &a.env) {
        (Some(s), _) => s.clone(),
        (None, Some(e)) => e.clone(),
        (None, None) => vec![],
    };
    for d in order {
        let cand = l.dirs[d].join(name);
        if cand.is_file() {
            return Some(cand);
        }
    }
    None
}

/// Textual inlining by the reference rule. Unreadable includes are replaced by a marker comment
/// (they yield a diagnostic in the implementation and nothing else).
fn inline(a: &Arrangement, l: &Laid, text: &str, depth: usize, files_read: &mut Vec<PathBuf>, any_syntax_fault: &mut bool) -> String {
    let mut out = String::new();
    for line in text.lines() {
        let t = line.trim();
        if let Some(rest) = t.strip_prefix("include \"") {
            if let Some(name) = rest.strip_suffix("\";") {
                if name == "stdgates.inc" {
                    out.push_str(line);
                    out.push('\n');
                    continue;
                }
                match resolve(a, l, name) {
                    Some(p) if depth < 6 => {
                        let body = std::fs::read_to_string(&p).unwrap_or_default();
                        files_read.push(p.clone());
                        if a.files.iter().any(|f| name.ends_with(&f.name) && f.has_syntax_fault) {
                            *any_syntax_fault = true;
                        }
                        out.push_str(&inline(a, l, &body, depth + 1, files_read, any_syntax_fault));
                    }
                    _ => out.push_str("// unreadable include\n"),
                }
                continue;
            }
        }
        out.push_str(line);
        out.push('\n');
    }
    out
}

struct Run {
    stmts: Vec<String>,
    symbols: Vec<(String, String)>,
    kinds: Vec<String>,
    any_syntax: bool,
    any_semantic: bool,
    any_errors: bool,
    tagged: Vec<(PathBuf, Vec<(String, usize, usize)>)>,
    included_paths: Vec<PathBuf>,
    span_fails: Vec<(String, String)>,
}

fn collect_lists(l: &SemanticErrorList, out: &mut Vec<(PathBuf, Vec<(String, usize, usize)>)>) {
    out.push((l.source_file_path().clone(), l.iter().map(|e| (format!("{:?}", e.kind()), usize::from(e.range().start()), usize::from(e.range().end()))).collect()));
    for i in l.include_errors() {
        collect_lists(i, out);
    }
}

/// Parent index (into the depth-first list order of `collect_lists`) of every list; the root is
/// its own parent.
fn collect_parents(l: &SemanticErrorList, me: usize, parent: usize, out: &mut Vec<usize>) {
    out.push(parent);
    let _ = me;
    for i in l.include_errors() {
        let idx = out.len();
        collect_parents(i, idx, me, out);
    }
}

fn collect_included(files: &[SourceFile], out: &mut Vec<SourceFile>) {
    for f in files {
        out.push(f.clone());
        collect_included(f.included_files(), out);
    }
}

fn check_spans(main_text: Option<&str>, main_tree: Option<oq3_syntax::SyntaxNode>, included: &[SourceFile], tagged: &[(PathBuf, Vec<(String, usize, usize)>)], parents: &[usize], fails: &mut Vec<(String, String)>) {
    // every semantic diagnostic's range is the range of a node of the tree of the file its list is tagged with
    let mut all = vec![];
    collect_included(included, &mut all);
    let file_of = |i: usize| -> (Option<String>, Option<oq3_syntax::SyntaxNode>) {
        if i == 0 {
            (main_text.map(|s| s.to_string()), main_tree.clone())
        } else {
            match all.iter().find(|f| f.file_path() == tagged[i].0.as_path()) {
                Some(f) => (std::fs::read_to_string(f.file_path()).ok(), f.ast().filter(|a| a.have_parse()).map(|a| a.syntax_node())),
                None => (None, None),
            }
        }
    };
    for (i, (path, errs)) in tagged.iter().enumerate() {
        if errs.is_empty() {
            continue;
        }
        let (text, tree) = file_of(i);
        for (kind, s, e) in errs {
            let k = kind.split('(').next().unwrap_or(kind).to_string();
            if k == "FileNotFound" || k == "IOError" || k == "PermissionDenied" {
                // the diagnostic of an include that cannot be read sits in the list of the
                // including file: its range is the range of a node (the path literal) of that
                // file's tree
                let _ = parents;
                if let (Some(t), Some(tr)) = (&text, &tree) {
                    if s > e || *e > t.len() || !t.is_char_boundary(*s) || !t.is_char_boundary(*e) {
                        fails.push((format!("C12:include:range-out-of-bounds:{k}"), format!("{s}..{e} in the includer of {}", path.display())));
                    } else if !tr.descendants().any(|n| usize::from(n.text_range().start()) == *s && usize::from(n.text_range().end()) == *e && n.text().to_string().starts_with('"')) {
                        fails.push((format!("C12:include:range-is-not-the-path-literal-of-the-includer:{k}"), format!("{s}..{e} ({:?}) in the includer of {}", t.get(*s..*e), path.display())));
                    }
                }
                continue;
            }
            match (&text, &tree) {
                (Some(t), Some(tr)) => {
                    if s > e || *e > t.len() || !t.is_char_boundary(*s) || !t.is_char_boundary(*e) {
                        fails.push((format!("C12:include:range-out-of-bounds:{k}"), format!("{s}..{e} in {}", path.display())));
                    } else if !tr.descendants().any(|n| usize::from(n.text_range().start()) == *s && usize::from(n.text_range().end()) == *e) {
                        fails.push((format!("C12:include:range-is-not-a-node-of-the-tagged-file:{k}"), format!("{s}..{e} in {}", path.display())));
                    }
                }
                _ => fails.push((format!("C18:errors-tagged-with-unknown-file:{k}"), format!("{}", path.display()))),
            }
        }
    }
}

fn run_impl(a: &Arrangement, l: &Laid) -> Result<Run, PanicInfo> {
    let search: Option<Vec<PathBuf>> = a.search.as_ref().map(|s| s.iter().map(|d| l.dirs[*d].clone()).collect());
    // the environment variable is also set when a list is given (it must then be ignored)
    let needs_env = a.search.is_none() || a.env.is_some();
    let main_path = l.root.join("main").join("main.qasm");
    let go = || {
        guarded(|| {
            macro_rules! finish {
                ($res:expr, $main_text:expr) => {{
                    let res = $res;
                    let mut kinds = vec![];
                    all_semantic_errors(res.semantic_errors(), &mut kinds);
                    let mut tagged = vec![];
                    collect_lists(res.semantic_errors(), &mut tagged);
                    let mut inc = vec![];
                    collect_included(res.syntax_result().included(), &mut inc);
                    let mut span_fails = vec![];
                    let tree = res.syntax_result().syntax_ast().filter(|a| a.have_parse()).map(|a| a.syntax_node());
                    // C12: no syntax diagnostic reported for the program as a whole => no error
                    // node or token in the tree of any file of its include closure
                    if !res.any_syntax_errors() {
                        let mut trees: Vec<(String, oq3_syntax::SyntaxNode)> = vec![];
                        if let Some(t) = &tree {
                            trees.push(("main".into(), t.clone()));
                        }
                        for f in &inc {
                            if let Some(a) = f.ast().filter(|a| a.have_parse()) {
                                trees.push((f.file_path().display().to_string(), a.syntax_node()));
                            }
                        }
                        for (name, t) in trees {
                            if t.descendants_with_tokens().any(|e| e.kind() == oq3_syntax::SyntaxKind::ERROR) {
                                span_fails.push(("C12:include:error-node-although-no-syntax-diagnostic-is-reported".to_string(), name));
                            }
                        }
                    }
                    let mut parents = vec![];
                    collect_parents(res.semantic_errors(), 0, 0, &mut parents);
                    check_spans($main_text, tree, res.syntax_result().included(), &tagged, &parents, &mut span_fails);
                    Run {
                        stmts: res.program().stmts().iter().map(|s| format!("{s:?}")).collect(),
                        symbols: res.symbol_table().verif_symbols().iter().map(|s| (s.name().to_string(), format!("{:?}", s.symbol_type()))).collect(),
                        kinds: kinds.into_iter().map(|k| k.0).collect(),
                        any_syntax: res.any_syntax_errors(),
                        any_semantic: res.any_semantic_errors(),
                        any_errors: res.any_errors(),
                        tagged,
                        included_paths: inc.iter().map(|f| f.file_path().to_path_buf()).collect(),
                        span_fails,
                    }
                }};
            }
            match a.entry {
                Entry::StringWithSearch => finish!(parse_source_string_with_path_search(&l.main, Some("main.qasm"), search.as_deref()), Some(l.main.as_str())),
                Entry::FileWithSearch => finish!(parse_source_file_with_search(&main_path, search.as_deref()), Some(l.main.as_str())),
                Entry::FilePlain => finish!(parse_source_file(&main_path), Some(l.main.as_str())),
            }
        })
    };
    if needs_env {
        let _g = ENV_LOCK.write().unwrap();
        match &a.env {
            Some(e) => {
                let joined = std::env::join_paths(e.iter().map(|d| l.dirs[*d].clone())).unwrap();
                std::env::set_var("QASM3_PATH", joined);
            }
            None => std::env::remove_var("QASM3_PATH"),
        }
        let r = go();
        std::env::remove_var("QASM3_PATH");
        r
    } else {
        let _g = ENV_LOCK.read().unwrap();
        // a list is given: a set environment variable must be ignored. Setting it needs the write
        // lock, so it is only set in the serialised cases; here it is whatever it is (unset).
        go()
    }
}

pub fn check_arrangement(a: &Arrangement, out: &mut Vec<Failure>) -> (bool, bool) {
    let l = match materialise(a) {
        Ok(l) => l,
        Err(e) => {
            out.push(Failure::new("HARNESS:fs:cannot-materialise", json!({"error": e.to_string()})));
            return (false, false);
        }
    };
    let detail = |what: String, exp: String| json!({"input": {"arrangement": format!("{a:?}")}, "actual": what, "expected": exp});
    let mut files_read = vec![];
    let mut syntax_fault = false;
    let inlined = inline(a, &l, &l.main, 0, &mut files_read, &mut syntax_fault);
    let reference = crate::pipeline::analyze(&inlined);
    let got = run_impl(a, &l);
    let nontrivial = files_read.len() >= 2 || a.files.iter().any(|f| f.dirs.len() >= 2);
    match (got, reference) {
        (Err(p), _) => {
            out.push(Failure::new(format!("C18:{}", panic_key(&p)), detail(format!("{}:{} {}", p.file, p.line, p.msg), "no panic".into())));
            if !syntax_fault {
                out.push(Failure::new(format!("C03:include:{}", panic_key(&p)), detail(format!("{}:{} {}", p.file, p.line, p.msg), "no panic".into())));
            }
        }
        (Ok(_), Err(_)) => {}
        (Ok(g), Ok(r)) => {
            let ref_syntax = r.any_syntax_errors();
            // C11: any syntax diagnostic anywhere => flag, empty program, no semantic diagnostics
            if ref_syntax != g.any_syntax {
                out.push(Failure::new("C11:include:syntax-error-flag-differs-from-inlined-program", detail(format!("{}", g.any_syntax), format!("{ref_syntax}"))));
            }
            if g.any_syntax {
                if !g.stmts.is_empty() {
                    out.push(Failure::new("C11:include:program-not-empty-despite-syntax-errors", detail(format!("{} statements", g.stmts.len()), "0".into())));
                }
                if !g.kinds.is_empty() {
                    out.push(Failure::new("C11:include:semantic-diagnostics-despite-syntax-errors", detail(format!("{:?}", g.kinds), "none".into())));
                }
            } else if !ref_syntax {
                let rs: Vec<String> = r.program().stmts().iter().map(|s| format!("{s:?}")).collect();
                if g.stmts != rs {
                    let i = g.stmts.iter().zip(rs.iter()).position(|(x, y)| x != y).unwrap_or(g.stmts.len().min(rs.len()));
                    out.push(Failure::new("C18:graph-differs-from-textual-inclusion", detail(format!("{} statements; first difference at #{i}: {:?}", g.stmts.len(), g.stmts.get(i)), format!("{} statements: {:?}", rs.len(), rs.get(i)))));
                }
                let rsym: Vec<(String, String)> = r.symbol_table().verif_symbols().iter().map(|s| (s.name().to_string(), format!("{:?}", s.symbol_type()))).collect();
                if g.symbols != rsym {
                    let gi: Vec<&String> = g.symbols.iter().map(|s| &s.0).collect();
                    let ri: Vec<&String> = rsym.iter().map(|s| &s.0).collect();
                    out.push(Failure::new("C18:symbols-differ-from-textual-inclusion", detail(format!("{:?}", &gi[gi.len().saturating_sub(14)..]), format!("{:?}", &ri[ri.len().saturating_sub(14)..]))));
                }
                // diagnostics: same multiset of kinds, except the file-access ones
                let norm = |v: &[String]| {
                    let mut m: BTreeMap<String, i64> = BTreeMap::new();
                    for k in v {
                        let k = k.split('(').next().unwrap_or(k).to_string();
                        if k == "FileNotFound" || k == "IncludeNotInGlobalScopeError" {
                            continue;
                        }
                        *m.entry(k).or_default() += 1;
                    }
                    m
                };
                let mut rk = vec![];
                all_semantic_errors(r.semantic_errors(), &mut rk);
                let rkinds: Vec<String> = rk.into_iter().map(|k| k.0).collect();
                // in the inlined reference an include below global scope still names a file
                if norm(&g.kinds) != norm(&rkinds) {
                    out.push(Failure::new("C18:diagnostics-differ-from-textual-inclusion", detail(format!("{:?}", norm(&g.kinds)), format!("{:?}", norm(&rkinds)))));
                }
                // C03: a placeholder in the graph stands for a construct the analyser does not
                // support; it is reported as a diagnostic wherever the construct was written
                let n_placeholders: usize = g.stmts.iter().map(|s| s.matches("NullExpr").count() + s.matches("NullStmt").count()).sum();
                if n_placeholders > 0 && g.kinds.is_empty() {
                    out.push(Failure::new("C03:include:unsupported-construct-without-diagnostic", detail(format!("{n_placeholders} placeholders in the graph, no semantic diagnostic in any list"), "at least one diagnostic".into())));
                }
                // the summary predicates agree with the lists (as they do for the flat program)
                if g.any_semantic == g.kinds.is_empty() || g.any_errors != (g.any_semantic || g.any_syntax) {
                    out.push(Failure::new("C18:summary-predicates-disagree-with-the-diagnostic-lists", detail(format!("any_semantic_errors()={} any_errors()={} with {} semantic diagnostics in all lists", g.any_semantic, g.any_errors, g.kinds.len()), format!("any_semantic_errors()={} as for the textually included program", r.any_semantic_errors()))));
                }
                // which files were read: exactly those of the reference resolution, in order
                let canon: Vec<PathBuf> = files_read.iter().map(|p| std::fs::canonicalize(p).unwrap_or(p.clone())).collect();
                let got_read: Vec<PathBuf> = g.included_paths.iter().filter(|p| p.is_file()).cloned().collect();
                if got_read != canon {
                    out.push(Failure::new("C18:resolved-files-differ", detail(format!("{got_read:?}"), format!("{canon:?}"))));
                }
                // one diagnostics list per include site, in source order (depth first), each
                // tagged with the file that site resolves to
                // (an unreadable include has a list too, tagged with the path as written)
                let list_paths: Vec<PathBuf> = g.tagged.iter().skip(1).map(|(p, _)| p.clone()).filter(|p| p.is_file()).collect();
                if list_paths != canon {
                    out.push(Failure::new("C18:include-lists-differ-from-include-sites", detail(format!("{list_paths:?}"), format!("{canon:?}"))));
                }
                // diagnostics raised inside an included file are tagged with its canonical path
                for (path, errs) in g.tagged.iter().skip(1) {
                    if errs.is_empty() {
                        continue;
                    }
                    let is_access = errs.iter().all(|e| e.0 == "FileNotFound");
                    if !is_access && !canon.contains(path) {
                        out.push(Failure::new("C18:include-errors-tagged-with-wrong-path", detail(format!("{}", path.display()), format!("one of {canon:?}"))));
                    }
                }
                // missing file: FileNotFound on the path literal of the include statement
                let n_missing_expected = count_unreadable(a, &l, &l.main, 0);
                let n_fnf = g.kinds.iter().filter(|k| k.as_str() == "FileNotFound").count();
                if n_fnf != n_missing_expected {
                    out.push(Failure::new("C18:file-not-found-count", detail(format!("{n_fnf}"), format!("{n_missing_expected}"))));
                }
                for (_p, errs) in &g.tagged {
                    for (k, s, e) in errs {
                        if k == "FileNotFound" {
                            // the range is a quoted path literal somewhere in an includer: check on the main text when it fits
                            let lit_ok = l.main.get(*s..*e).map(|t| t.starts_with('"') && t.ends_with('"')).unwrap_or(false)
                                || files_read.iter().any(|f| std::fs::read_to_string(f).ok().and_then(|t| t.get(*s..*e).map(|x| x.starts_with('"') && x.ends_with('"'))).unwrap_or(false));
                            if !lit_ok {
                                out.push(Failure::new("C18:file-not-found-range-is-not-the-path-literal", detail(format!("{s}..{e}"), "range of a quoted path".into())));
                            }
                        }
                    }
                }
                let n_nested = l.main.matches("{ include \"").count();
                let n_ing = g.kinds.iter().filter(|k| k.as_str() == "IncludeNotInGlobalScopeError").count();
                if n_nested != n_ing {
                    out.push(Failure::new("C18:include-below-global-scope-count", detail(format!("{n_ing}"), format!("{n_nested}"))));
                }
                if g.symbols.iter().any(|s| s.0 == "decoy_stdgates_was_read") {
                    out.push(Failure::new("C18:stdgates-read-from-a-file", detail("decoy file was read".into(), "stdgates.inc is provided without any file".into())));
                }
            }
            for (k, d) in &g.span_fails {
                out.push(Failure::new(k.clone(), detail(d.clone(), String::new())));
            }
        }
    }
    let _ = std::fs::remove_dir_all(&l.root);
    (true, nontrivial)
}

fn count_unreadable(a: &Arrangement, l: &Laid, text: &str, depth: usize) -> usize {
    let mut n = 0;
    for line in text.lines() {
        let t = line.trim();
        if let Some(rest) = t.strip_prefix("include \"") {
            if let Some(name) = rest.strip_suffix("\";") {
                if name == "stdgates.inc" {
                    continue;
                }
                match resolve(a, l, name) {
                    Some(p) if depth < 6 => {
                        let body = std::fs::read_to_string(&p).unwrap_or_default();
                        n += count_unreadable(a, l, &body, depth + 1);
                    }
                    _ => n += 1,
                }
            }
        }
    }
    n
}

fn run_arrangements(ctx: &RunCtx, prefixes: &'static [&'static str], name: &str, n: u64) {
    // cases do file I/O: keep shrinking short
    let prev = ctx.shrink_iters.swap(2_000, std::sync::atomic::Ordering::Relaxed);
    run_arrangements_inner(ctx, prefixes, name, n);
    ctx.shrink_iters.store(prev, std::sync::atomic::Ordering::Relaxed);
}

fn run_arrangements_inner(ctx: &RunCtx, prefixes: &'static [&'static str], name: &str, n: u64) {
    ctx.random(name, n, 200, |src| {
        let a = gen_arrangement(src);
        let mut rep = CaseReport::default();
        let mut fails = vec![];
        let (judged, nontrivial) = check_arrangement(&a, &mut fails);
        rep.discarded = !judged;
        rep.failures = fails.into_iter().filter(|f| prefixes.iter().any(|p| f.key.starts_with(p)) || f.key.starts_with("HARNESS:")).collect();
        rep.class(format!("{:?}", a.entry));
        rep.class(match (&a.search, &a.env) {
            (Some(_), Some(_)) => "search-list+env-set",
            (Some(_), None) => "search-list",
            (None, Some(_)) => "env-only",
            (None, None) => "no-search",
        });
        if a.main.contains("{ABS:") || a.files.iter().any(|f| f.body.contains("{ABS:")) {
            rep.class("absolute-include-path");
        }
        if nontrivial {
            rep.nontrivial = Some(fnv64(format!("{a:?}").as_bytes()));
        }
        rep.sample = Some(format!("dirs={} files={:?} search={:?} env={:?} entry={:?}\n{}", a.n_dirs, a.files.iter().map(|f| (&f.name, &f.dirs)).collect::<Vec<_>>(), a.search, a.env, a.entry, a.main));
        rep
    });
}

pub fn replay_arrangement(prefix: &str, v: &serde_json::Value) -> Result<Vec<Failure>, String> {
    let choices: Vec<u32> = v["choices"].as_array().ok_or("no choices")?.iter().filter_map(|x| x.as_u64().map(|n| n as u32)).collect();
    let mut src = Src::new(&choices);
    let a = gen_arrangement(&mut src);
    let mut out = vec![];
    check_arrangement(&a, &mut out);
    cleanup_work();
    Ok(out.into_iter().filter(|f| f.key.starts_with(prefix)).collect())
}

pub fn run_c18(ctx: &RunCtx) {
    ctx.set_rule("file-system arrangements: 1-3 search directories, 1-4 include files with distinguishable contents (each copy declares a marker variable named after its file and directory), present in none/one/several directories, nested includes (chains up to 4 files), relative paths and absolute paths of one particular copy (existing or not), missing files, includes below global scope, decoy stdgates.inc, included files that begin or end with an annotation or pragma line; search list given / absent with QASM3_PATH set or unset; three entry points. oracle (differential): analysis of main+files equals the analysis of the textually inlined program (reference resolution rule): graph, symbols, diagnostic kinds; files read = reference resolution in order; diagnostics inside an included file are tagged with its canonical path; FileNotFound sits on the path literal; IncludeNotInGlobalScopeError per nested include; stdgates.inc never read from disk; no panic. non-trivial = >=2 files read or a file present in >=2 directories; distinct by arrangement");
    ctx.assume("include cycles are not generated (the code documents that it does not guard against them); cases that mutate QASM3_PATH are serialised under a process-wide lock; scratch directories live under harness/target/work and are removed");
    let n = ctx.pick(12_000u64, 300_000u64);
    run_arrangements(ctx, &["C18:"], "arrangement", n);
    fixed_cases(ctx, "C18");
    ctx.par_units(1, |_, st| {
        let mut rep = CaseReport::default();
        check_builtin_library(&mut rep.failures);
        rep.class("built-in-library");
        rep.nontrivial = Some(fnv64(b"built-in-library"));
        ctx.eval_local("C18", st, rep);
    });
    cleanup_work();
}

/// The built-in library against a real file with the same declarations: `include
/// "stdgates.inc"` must give the gate symbols (name, parameters, qubits) that including a file
/// with the specification's signatures gives, and calls of every gate with the right counts must
/// be judged alike.
pub fn check_builtin_library(out: &mut Vec<Failure>) {
    let mut decls = String::new();
    let mut calls = String::from("qubit[4] lq;\n");
    for (n, np, nq) in crate::semcheck::STD_GATES {
        let params = if *np > 0 { format!("({})", (0..*np).map(|i| format!("p{i}")).collect::<Vec<_>>().join(", ")) } else { String::new() };
        let qs = (0..*nq).map(|i| format!("a{i}")).collect::<Vec<_>>().join(", ");
        decls.push_str(&format!("gate {n}{params} {qs} {{ }}\n"));
        let args = if *np > 0 { format!("({})", (0..*np).map(|i| format!("0.{}", i + 1)).collect::<Vec<_>>().join(", ")) } else { String::new() };
        let ops = (0..*nq).map(|i| format!("lq[{i}]")).collect::<Vec<_>>().join(", ");
        calls.push_str(&format!("{n}{args} {ops};\n"));
    }
    let builtin = analyze_with_files(&format!("include \"stdgates.inc\";\n{calls}"), &[]);
    let real = analyze_with_files(&format!("include \"real_library.inc\";\n{calls}"), &[("real_library.inc".to_string(), decls.clone())]);
    let detail = |a: String, e: String| json!({"input": {"source": format!("include \"stdgates.inc\";\n{calls}")}, "actual": a, "expected": e});
    match (builtin, real) {
        (Ok(b), Ok(r)) => {
            let gates = |res: &crate::pipeline::Analysis| -> Vec<(String, String)> {
                res.symbol_table().verif_symbols().iter().filter(|s| matches!(s.symbol_type(), oq3_semantics::types::Type::Gate(..))).map(|s| (s.name().to_string(), format!("{:?}", s.symbol_type()))).collect()
            };
            let (gb, gr) = (gates(&b), gates(&r));
            if gb != gr {
                let i = gb.iter().zip(gr.iter()).position(|(x, y)| x != y).unwrap_or(gb.len().min(gr.len()));
                out.push(Failure::new("C18:built-in-library-differs-from-its-declarations", detail(format!("{:?}", gb.get(i)), format!("{:?}", gr.get(i)))));
            }
            let kinds = |res: &crate::pipeline::Analysis| -> Vec<String> {
                let mut v = vec![];
                all_semantic_errors(res.semantic_errors(), &mut v);
                v.into_iter().map(|k| k.0).collect()
            };
            if kinds(&b) != kinds(&r) {
                out.push(Failure::new("C18:built-in-library-calls-judged-differently", detail(format!("{:?}", kinds(&b)), format!("{:?}", kinds(&r)))));
            }
        }
        (Err(p), _) | (_, Err(p)) => out.push(Failure::new(format!("C18:{}", panic_key(&p)), detail(p.msg.clone(), "no panic".into()))),
    }
}

pub fn run_c11_includes(ctx: &RunCtx) {
    let n = ctx.pick(3_000u64, 100_000u64);
    run_arrangements(ctx, &["C11:"], "include-arrangement", n);
    fixed_cases(ctx, "C11");
    cleanup_work();
}

/// One program of the C03 include-chain family: `construct` sits in the file at `depth` of a
/// chain of otherwise clean files (depth 0 = the main program).
pub fn check_c03_chain(construct_in: &str, depth: usize, tail: bool, out: &mut Vec<Failure>) -> bool {
    // `HEADERS:` in front of the construct: every file of the chain starts with a version header
    let (headers, construct) = match construct_in.strip_prefix("HEADERS:") {
        Some(c) => (true, c),
        None => (false, construct_in),
    };
    let mut files: Vec<(String, String)> = vec![];
    let mut main = String::new();
    for d in 0..=depth {
        let mut body = String::new();
        if d < depth {
            body.push_str(&format!("include \"chain{}.inc\";\n", d + 1));
        }
        body.push_str(&format!("int clean{d} = {d};\n"));
        if d == depth {
            if tail {
                body.push_str(construct);
                body.push('\n');
            } else {
                body = format!("{construct}\n{body}");
            }
        }
        if headers {
            body = format!("OPENQASM 3.{d};\n{body}");
        }
        if d == 0 {
            main = body;
        } else {
            files.push((format!("chain{d}.inc"), body));
        }
    }
    let flat: String = {
        // the textually included program (innermost first)
        let mut t = String::new();
        for d in (0..=depth).rev() {
            let body = if d == 0 { main.clone() } else { files[d - 1].1.clone() };
            let own: String = body.lines().filter(|l| !l.starts_with("include \"chain")).map(|l| format!("{l}\n")).collect();
            t = if body.starts_with("include \"chain") { format!("{t}{own}") } else { format!("{own}{t}") };
        }
        t
    };
    if !crate::pipeline::clean_parse(&flat) {
        return false;
    }
    let detail = |a: String| json!({"input": {"source": main, "files": files.iter().map(|(n, b)| format!("// ---- {n}\n{b}")).collect::<Vec<_>>(), "construct": construct_in, "depth": depth, "tail": tail}, "actual": a});
    match analyze_with_files(&main, &files) {
        Err(p) => out.push(Failure::new(format!("C03:include-chain:{}", panic_key(&p)), detail(format!("{}:{} {}", p.file, p.line, p.msg)))),
        Ok(res) => {
            let dbg = format!("{:?}", res.program());
            let n_placeholders = dbg.matches("NullExpr").count() + dbg.matches("NullStmt").count();
            let mut kinds = vec![];
            all_semantic_errors(res.semantic_errors(), &mut kinds);
            if n_placeholders > 0 && kinds.is_empty() {
                out.push(Failure::new("C03:include-chain:unsupported-construct-without-diagnostic", detail(format!("{n_placeholders} placeholders in the graph, no semantic diagnostic in any list"))));
            }
            // every construct of the family is unsupported or faulty by construction
            if kinds.is_empty() && n_placeholders == 0 {
                out.push(Failure::new("C03:include-chain:construct-accepted-silently", detail("no semantic diagnostic in any list".into())));
            }
            if res.symbol_table().verif_scope_depth() != 1 {
                out.push(Failure::new("C03:include-chain:scope-left-open", detail(format!("depth {}", res.symbol_table().verif_scope_depth()))));
            }
        }
    }
    true
}

pub const C03_CHAIN_CONSTRUCTS: &[&str] = &[
    "bool un = 1 < 2;",
    "array[int, 3] ua;",
    "int k; k += 1;",
    "bool lg = true && false;",
    "input array[int[8], 2] ia;",
    "creg oc[2];",
    "box { }",
    "extern ef(int) -> int;",
    "defcalgrammar \"openpulse\";",
    "cal { }",
    "int[8] e = {1, 2};",
    "\"a string\";",
    "(1, 2);",
    // an expression without `;` in front of a closing brace (not a statement in the tree)
    "bool tc; if (tc) { tc && tc }",
    "int tz; while (false) { tz = 1; undeclared_tail }",
    "def tf() { 1 + undeclared_in_tail }",
    "for int ti in [0:1] { ti < 2 }",
    // control flow without a body (the lone `;` is skipped by the parser)
    "bool ec; int ex; if (ec); else ex = 1;",
    "bool ed; if (ed); else { }",
    "bool ee; if (ee); else if (ee) { }",
    "bool ef; while (ef);",
    "for int eg in [0:1];",
    // designators naming something that is not an integer constant
    "qubit dqq; bit[dqq] dqb;",
    "int[pi] dpx;",
    "gate dgg(dgt) q { int[dgt] dgx; }",
    "def dff() { } float[dff] dfw;",
    "HEADERS:bool hun = 1 < 2;",
    "HEADERS:array[int, 3] hua;",
    "HEADERS:qubit hq; qubit hq;",
    "def of(creg c[2]) { }",
    "def of(int a, qreg q[3], bit b) { }",
    "def of(qreg q) { }",
    "bool nb = !true;",
    "int bn = ~1;",
    "creg oc2[2]; qreg oq2[2];",
    "duration dd = durationof({U(0, 0, 0) $0;});",
    "def af(readonly array[int, 2] a) { }",
    "{ int nested_block; }",
    "[1, 2];",
    "int pw = 5; pw **= 2;",
    "int never_declared_target; undeclared_thing = 1;",
    "qubit dq; qubit dq;",
];

pub fn run_c03_includes(ctx: &RunCtx) {
    // fixed family: every unsupported (or faulty) construct at the head or tail of the file at
    // depth 0-3 of a chain of otherwise clean files
    let mut jobs = vec![];
    for c in C03_CHAIN_CONSTRUCTS {
        for depth in 0..=3usize {
            for tail in [false, true] {
                jobs.push((*c, depth, tail));
            }
        }
    }
    ctx.par_units(jobs.len(), |i, st| {
        let (c, depth, tail) = jobs[i];
        let mut rep = CaseReport::default();
        let judged = check_c03_chain(c, depth, tail, &mut rep.failures);
        rep.discarded = !judged;
        rep.class(format!("include-chain/depth{depth}"));
        rep.nontrivial = Some(fnv64(format!("{c}{depth}{tail}").as_bytes()));
        if i % 11 == 0 {
            rep.sample = Some(format!("depth {depth}: {c}"));
        }
        ctx.eval_local("C03", st, rep);
    });
    // (cases that set QASM3_PATH are serialised: C18 carries the large run of these)
    let n = ctx.pick(3_000u64, 20_000u64);
    run_arrangements(ctx, &["C03:"], "include-arrangement", n);
    cleanup_work();
}

pub fn run_c12_includes(ctx: &RunCtx) {
    let n = ctx.pick(3_000u64, 100_000u64);
    run_arrangements(ctx, &["C12:"], "include-arrangement", n);
    cleanup_work();
}

/// Fixed inputs around malformed include statements (gating and no-panic).
fn fixed_cases(ctx: &RunCtx, prefix: &str) {
    let cases: Vec<&str> = vec![
        "include;",
        "include \"001\";",
        "include \"a\\qb\";",
        "include \"no_such_file.qasm\";",
        "include \"stdgates.inc\";",
        "include \"stdgates.inc\"; include \"no_such_file.inc\"; int x = 1;",
        "include \"a\\\n   \n  b.inc\";",
        "include \"\";",
        "include 'single.inc';",
        "if (true) { include \"stdgates.inc\"; }",
        "def f() { include \"nothing.inc\"; }",
        "include \"/definitely/not/here.inc\";",
    ];
    let mut st = Stats::default();
    for text in cases {
        let mut rep = CaseReport::default();
        let mut fails = vec![];
        crate::pipeline::check_gating_source(text, &mut fails);
        if crate::pipeline::clean_parse(text) {
            if let Err(p) = crate::pipeline::analyze(text) {
                fails.push(Failure::new(format!("C18:{}", panic_key(&p)), json!({"input": {"source": text}, "actual": p.msg})));
            }
        }
        let pre = format!("{prefix}:");
        rep.failures = fails.into_iter().filter(|f| f.key.starts_with(&pre)).collect();
        rep.class("fixed-include-case");
        rep.nontrivial = Some(fnv64(text.as_bytes()));
        ctx.eval_local(prefix, &mut st, rep);
    }
    ctx.merge_stats(st);
}
