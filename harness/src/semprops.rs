//! Semantic-level properties driven by the joint walk: C03 (semgen part), C06, C07, C13, C17,
//! and the semantic half of C12.

use crate::engine::*;
use crate::layout::Style;
use crate::model::*;
use crate::pipeline::*;
use crate::semcheck::*;
use crate::semgen::*;
use crate::synprops::{print_program, Printed};
use oq3_source_file::SourceTrait;
use serde_json::json;
use std::collections::BTreeMap;

pub fn run_c03_semgen(ctx: &RunCtx) {
    let n = ctx.pick(200_000u64, 5_000_000u64);
    ctx.random("semgen-faulty", n, 900, |src| {
        let style = [Style::Minimal, Style::Spaced, Style::Wild][src.below(3)];
        let mut p = Profile::faulty();
        p.avoid_known = false;
        let prog = gen_program(src, &p);
        let pr = print_program(src, &prog, style);
        let mut rep = CaseReport::default();
        let judged = check_c03(&pr.text, &mut rep.failures);
        rep.discarded = !judged;
        rep.class("semgen-faulty");
        rep.nontrivial = Some(fnv64(pr.text.as_bytes()));
        rep.sample = Some(pr.text);
        rep
    });
}

/// Ordinal (in printer/walker order) of the innermost statement whose tokens contain `off`.
fn stmt_ordinal(pr: &Printed, off: usize) -> Option<usize> {
    let ti = pr.offsets.iter().position(|(_, e)| *e > off)?;
    let mut best: Option<(usize, usize)> = None; // (depth, ordinal)
    let mut ord = 0usize;
    for s in &pr.spans {
        if !s.is_stmt {
            continue;
        }
        if s.start <= ti && ti < s.end {
            if best.map(|(d, _)| s.depth >= d).unwrap_or(true) {
                best = Some((s.depth, ord));
            }
        }
        ord += 1;
    }
    best.map(|b| b.1)
}

fn stmt_kind_at(pr: &Printed, ordinal: usize) -> String {
    pr.spans.iter().filter(|s| s.is_stmt).nth(ordinal).map(|s| s.label.clone()).unwrap_or("?".into())
}

pub struct Joint {
    pub fails: Vec<Failure>,
    pub n_shadow: usize,
    pub n_dup: usize,
    pub n_missing: usize,
    pub n_scopes: usize,
    pub n_usage_violated: usize,
    pub n_usage_respected: usize,
    pub judged_types: usize,
    pub crashed: bool,
}

const C07_KINDS: &[&str] = &["UndefVarError", "UndefGateError", "RedeclarationError"];
const C13_KINDS: &[&str] = &[
    "NumGateParamsError", "NumGateQubitsError", "NumDefParamsError", "IncompatibleTypesError", "MutateConstError",
    "NotInGlobalScopeError", "ReturnInGlobalScopeError", "UndefGateError",
];

fn kind_base(k: &str) -> String {
    k.split('(').next().unwrap_or(k).to_string()
}

/// Analyse the printed program and compare it with the model.
pub fn joint(prog: &[Stmt], pr: &Printed) -> Option<Joint> {
    if !clean_parse(&pr.text) {
        return None;
    }
    let res = match analyze(&pr.text) {
        Ok(r) => r,
        Err(_) => {
            // a crash is C03's subject
            return Some(Joint { fails: vec![], n_shadow: 0, n_dup: 0, n_missing: 0, n_scopes: 0, n_usage_violated: 0, n_usage_respected: 0, judged_types: 0, crashed: true });
        }
    };
    let r = guarded(|| {
        let mut w = Walk::new(res.symbol_table(), &pr.text);
        w.program(prog, res.program());
        if res.symbol_table().verif_scope_depth() != 1 {
            w.fails.push(Failure::new("C07:scope-depth-after-analysis", json!({"input": {"source": pr.text}, "actual": res.symbol_table().verif_scope_depth()})));
        }
        // diagnostics per statement
        let mut actual: BTreeMap<(usize, String), i64> = BTreeMap::new();
        let mut errs = vec![];
        all_semantic_errors(res.semantic_errors(), &mut errs);
        for (kind, s, _e, _p) in &errs {
            if let Some(o) = stmt_ordinal(pr, *s) {
                *actual.entry((o, kind_base(kind))).or_default() += 1;
            }
        }
        let mut expected: BTreeMap<(usize, String), i64> = BTreeMap::new();
        for (o, k) in &w.expected {
            *expected.entry((*o, k.clone())).or_default() += 1;
        }
        let mut keys: Vec<(usize, String)> = actual.keys().chain(expected.keys()).cloned().collect();
        keys.sort();
        keys.dedup();
        let mut fails = std::mem::take(&mut w.fails);
        let mut violated = 0;
        for (o, k) in keys {
            let e = *expected.get(&(o, k.clone())).unwrap_or(&0);
            let a = *actual.get(&(o, k.clone())).unwrap_or(&0);
            if C13_KINDS.contains(&k.as_str()) && e > 0 {
                violated += 1;
            }
            if e == a {
                continue;
            }
            let sk = stmt_kind_at(pr, o);
            let dir = if a < e { "missing" } else { "spurious" };
            let detail = json!({"input": {"source": pr.text}, "expected": format!("{e} x {k} on statement #{o} ({sk})"), "actual": format!("{a}"), "all_diagnostics": errs.iter().map(|x| format!("{} @{}..{}", x.0, x.1, x.2)).collect::<Vec<_>>()});
            if C07_KINDS.contains(&k.as_str()) && k != "UndefGateError" {
                fails.push(Failure::new(format!("C07:diag:{k}:{dir}:{sk}"), detail.clone()));
            }
            if C13_KINDS.contains(&k.as_str()) {
                if k == "IncompatibleTypesError" && w.has_unresolved.contains(&o) {
                    continue;
                }
                // an ill-typed operand makes the enclosing expressions ill-typed too: further
                // reports of the same kind on the same statement are not excluded by the rule
                if k == "IncompatibleTypesError" && e > 0 && a > e {
                    continue;
                }
                if k.starts_with("NumGate") && w.arity_unjudged.contains(&o) {
                    continue;
                }
                fails.push(Failure::new(format!("C13:diag:{k}:{dir}:{sk}"), detail));
            }
        }
        let respected = w.expected.len().max(1);
        Joint {
            fails,
            n_shadow: w.n_shadow,
            n_dup: w.n_dup,
            n_missing: w.n_missing,
            n_scopes: w.n_scopes,
            n_usage_violated: violated,
            n_usage_respected: respected,
            judged_types: w.judged_types,
            crashed: false,
        }
    });
    match r {
        Ok(j) => Some(j),
        Err(p) => Some(Joint {
            fails: vec![Failure::new(
                if is_harness_panic(&p) { format!("HARNESS:joint:{}:{}", p.file, p.line) } else { format!("C06:{}", panic_key(&p)) },
                json!({"input": {"source": pr.text}, "actual": p.msg}),
            )],
            n_shadow: 0,
            n_dup: 0,
            n_missing: 0,
            n_scopes: 0,
            n_usage_violated: 0,
            n_usage_respected: 0,
            judged_types: 0,
            crashed: false,
        }),
    }
}

/// Split the printed program at top-level statement boundaries into a main text and include
/// files (possibly nested), as `(main, files, n_includes, n_before_first_include)`.
/// The cut points are starts of top-level statements, so every file holds whole statements
/// with their trivia; a version line stays first in the main text.
pub fn split_into_includes(src: &mut Src, prog: &[Stmt], pr: &Printed) -> Option<(String, Vec<(String, String)>, usize, usize)> {
    let tops: Vec<usize> = pr.spans.iter().filter(|s| s.is_stmt && s.depth == 0).map(|s| pr.offsets[s.start].0).collect();
    if tops.len() != prog.len() || prog.len() < 2 {
        return None;
    }
    let lo = if matches!(prog[0], Stmt::Version(_)) { 1 } else { 0 };
    let n = prog.len();
    if n - lo < 1 {
        return None;
    }
    let at = |k: usize| if k >= n { pr.text.len() } else { tops[k] };
    // where a moved run starts with an annotated statement, the annotation lines may stay behind
    // in the including file, directly in front of the include statement (they then belong to the
    // first statement of the included file)
    let mut from: Vec<usize> = (0..=n).map(at).collect();
    for k in 0..n {
        if matches!(prog[k], Stmt::Annotated(..)) && src.bool() {
            let rest = &pr.text[tops[k]..at(k + 1)];
            let mut cut = 0usize;
            loop {
                let tail = &rest[cut..];
                let lead = tail.len() - tail.trim_start().len();
                if tail[lead..].starts_with('@') {
                    match tail[lead..].find('\n') {
                        Some(nl) => cut += lead + nl + 1,
                        None => break,
                    }
                } else {
                    break;
                }
            }
            if cut > 0 && cut < rest.len() {
                from[k] = tops[k] + cut;
            }
        }
    }
    let at = |k: usize| if k >= n { pr.text.len() } else { tops[k] };
    let _ = &at;
    // cut [i, j) out of the main text; inside it optionally cut [i2, j2) into a nested file
    let i = lo + src.below(n - lo);
    let j = i + 1 + src.below(n - i);
    let nested = j - i >= 2 && src.chance(1, 3);
    let mut files = vec![];
    let inc_line = |name: &str| format!("include \"{name}\";\n");
    let body0 = if nested {
        let i2 = i + src.below(j - i);
        let j2 = i2 + 1 + src.below(j - i2);
        files.push(("inner.inc".to_string(), pr.text[from[i2]..at(j2)].to_string()));
        format!("{}{}{}", &pr.text[from[i].min(from[i2])..from[i2]], inc_line("inner.inc"), &pr.text[at(j2)..at(j)])
    } else {
        pr.text[from[i]..at(j)].to_string()
    };
    files.push(("part.inc".to_string(), body0));
    let mut main = format!("{}{}", &pr.text[..from[i]], inc_line("part.inc"));
    let mut n_inc = 1 + nested as usize;
    // optionally a second include further down
    if j < n && src.chance(1, 3) {
        let i3 = j + src.below(n - j);
        let j3 = i3 + 1 + src.below(n - i3);
        files.push(("second.qasm".to_string(), pr.text[from[i3]..at(j3)].to_string()));
        main.push_str(&pr.text[at(j)..from[i3]]);
        main.push_str(&inc_line("second.qasm"));
        main.push_str(&pr.text[at(j3)..]);
        n_inc += 1;
    } else {
        main.push_str(&pr.text[at(j)..]);
    }
    Some((main, files, n_inc, i))
}

/// The structural half of the joint walk for a program whose top-level statements are partly
/// moved into include files: the graph must be the one of the unsplit program.
pub fn joint_split(prog: &[Stmt], pr: &Printed, main: &str, files: &[(String, String)]) -> Option<Vec<Failure>> {
    if !clean_parse(&pr.text) {
        return None;
    }
    let res = crate::fsprops::analyze_with_files(main, files).ok()?;
    if res.any_syntax_errors() {
        return None;
    }
    let shown = format!("{main}\n{}", files.iter().map(|(n, b)| format!("// ---- file {n}\n{b}")).collect::<Vec<_>>().join("\n"));
    let r = guarded(|| {
        let mut w = Walk::new(res.symbol_table(), &shown);
        w.program(prog, res.program());
        std::mem::take(&mut w.fails)
    });
    match r {
        Ok(f) => Some(f.into_iter().map(|mut f| {
            f.key = format!("{}@include-split", f.key);
            f
        }).collect()),
        Err(p) => Some(vec![Failure::new(if is_harness_panic(&p) { format!("HARNESS:joint-split:{}:{}", p.file, p.line) } else { format!("C06:{}", panic_key(&p)) }, json!({"input": {"source": shown}, "actual": p.msg}))]),
    }
}

fn run_joint_split(ctx: &RunCtx, prefix: &'static str, n: u64) {
    let prev = ctx.shrink_iters.swap(2_000, std::sync::atomic::Ordering::Relaxed);
    run_joint_split_inner(ctx, prefix, n);
    crate::fsprops::cleanup_work();
    ctx.shrink_iters.store(prev, std::sync::atomic::Ordering::Relaxed);
}

fn run_joint_split_inner(ctx: &RunCtx, prefix: &'static str, n: u64) {
    ctx.random("include-split", n, 1200, |src| {
        let style = [Style::Minimal, Style::Spaced, Style::Wild][src.below(3)];
        let prog = gen_program(src, &Profile::plain());
        let pr = print_program(src, &prog, style);
        let mut rep = CaseReport::default();
        let Some((main, files, n_inc, before)) = split_into_includes(src, &prog, &pr) else {
            rep.discarded = true;
            rep.class("too-short-to-split");
            return rep;
        };
        match joint_split(&prog, &pr, &main, &files) {
            None => {
                rep.discarded = true;
                rep.class("syntax-diagnostics");
            }
            Some(fails) => {
                let pre = format!("{prefix}:");
                rep.failures = fails.into_iter().filter(|f| f.key.starts_with(&pre) || f.key.starts_with("HARNESS:")).collect();
                rep.class(format!("includes:{n_inc}"));
                rep.class(if before > 0 { "statements-before-include" } else { "include-first" });
                if before > 0 {
                    rep.nontrivial = Some(fnv64(main.as_bytes()));
                }
            }
        }
        rep.sample = Some(main);
        rep
    });
}

pub fn replay_joint_split(prefix: &str, v: &serde_json::Value) -> Result<Vec<Failure>, String> {
    let choices: Vec<u32> = v["choices"].as_array().ok_or("no choices")?.iter().filter_map(|x| x.as_u64().map(|n| n as u32)).collect();
    let mut src = Src::new(&choices);
    let style = [Style::Minimal, Style::Spaced, Style::Wild][src.below(3)];
    let prog = gen_program(&mut src, &Profile::plain());
    let pr = print_program(&mut src, &prog, style);
    let Some((main, files, _, _)) = split_into_includes(&mut src, &prog, &pr) else { return Ok(vec![]) };
    let pre = format!("{prefix}:");
    Ok(joint_split(&prog, &pr, &main, &files).map(|f| f.into_iter().filter(|f| f.key.starts_with(&pre)).collect()).unwrap_or_default())
}

fn run_joint(ctx: &RunCtx, prefix: &'static str, check_name: &str, n: u64, profile: Profile, nontrivial: impl Fn(&Joint, &[Stmt]) -> bool + Sync) {
    ctx.random(check_name, n, 1200, |src| {
        let style = [Style::Minimal, Style::Spaced, Style::Wild][src.below(3)];
        let prog = gen_program(src, &profile);
        let pr = print_program(src, &prog, style);
        let mut rep = CaseReport::default();
        match joint(&prog, &pr) {
            None => {
                rep.discarded = true;
                rep.class("syntax-diagnostics");
            }
            Some(j) if j.crashed => {
                rep.discarded = true;
                rep.class("analysis-crashed");
            }
            Some(j) => {
                let pre = format!("{prefix}:");
                if nontrivial(&j, &prog) {
                    rep.nontrivial = Some(fnv64(r_program(&prog).as_bytes()));
                }
                rep.failures = j.fails.into_iter().filter(|f| f.key.starts_with(&pre) || f.key.starts_with("HARNESS:")).collect();
                rep.class(check_name.to_string());
                for s in &prog {
                    rep.class(format!("stmt:{}", s.kind()));
                }
            }
        }
        rep.sample = Some(pr.text);
        rep
    });
}

pub fn replay_joint(prefix: &str, v: &serde_json::Value) -> Result<Vec<Failure>, String> {
    // generator-based replay: re-decode the stored choices with the stored profile
    let choices: Vec<u32> = v["choices"].as_array().ok_or("no choices")?.iter().filter_map(|x| x.as_u64().map(|n| n as u32)).collect();
    let check = v["check"].as_str().unwrap_or("");
    if check == "include-split" {
        return replay_joint_split(prefix, v);
    }
    let profile = match check {
        "scope-stress" => Profile::scope_stress(),
        "usage" => Profile::usage(),
        "faulty" => Profile::faulty(),
        _ => Profile::plain(),
    };
    let mut src = Src::new(&choices);
    let style = [Style::Minimal, Style::Spaced, Style::Wild][src.below(3)];
    let prog = gen_program(&mut src, &profile);
    let pr = print_program(&mut src, &prog, style);
    let pre = format!("{prefix}:");
    Ok(joint(&prog, &pr).map(|j| j.fails.into_iter().filter(|f| f.key.starts_with(&pre)).collect()).unwrap_or_default())
}

fn depth_of(prog: &[Stmt]) -> usize {
    fn d(s: &Stmt) -> usize {
        match s {
            Stmt::If { then, els, .. } => 1 + then.stmts().iter().map(|x| d(x)).max().unwrap_or(0).max(els.as_ref().map(|e| e.stmts().iter().map(|x| d(x)).max().unwrap_or(0)).unwrap_or(0)),
            Stmt::While { body, .. } | Stmt::For { body, .. } => 1 + body.stmts().iter().map(|x| d(x)).max().unwrap_or(0),
            Stmt::Gate { body, .. } | Stmt::Def { body, .. } => 1 + body.iter().map(d).max().unwrap_or(0),
            Stmt::Switch { cases, default, .. } => 1 + cases.iter().flat_map(|c| c.1.iter()).chain(default.iter().flatten()).map(d).max().unwrap_or(0),
            Stmt::Annotated(_, i) => d(i),
            _ => 0,
        }
    }
    prog.iter().map(d).max().unwrap_or(0)
}

pub fn run_c06(ctx: &RunCtx) {
    ctx.set_rule("generated programs of the supported subset without faults (all statement kinds nested to the profile depth, block and single-statement bodies, every supported operator, annotations, pragmas, stdgates include), leaves made identifiable; joint walk of the model term and the graph through public accessors: statement kinds and order, block contents, branches, loop bodies, cases/default, gate/def bodies and parameter lists, operand/argument/index/modifier order, operator identity, literal class and value, annotation and pragma text; a third of the budget re-runs the walk with runs of top-level statements moved into one to three real include files (one level of nesting), where the graph must be that of the unsplit program (includes expanded in place). implicit casts are skipped. non-trivial = >=2 nesting levels or a control-flow statement; distinct by model term");
    ctx.assume("the expected graph vocabulary is read off asg.rs (node types), not off the translation code; implicit Cast wrappers are C08's subject");
    let n = ctx.pick(300_000u64, 5_000_000u64);
    run_joint(ctx, "C06", "plain", n, Profile::plain(), |_, p| depth_of(p) >= 1);
    run_joint(ctx, "C06", "faulty", n / 2, Profile::faulty(), |_, p| depth_of(p) >= 1);
    run_joint_split(ctx, "C06", n / 3);
    deterministic_forms(ctx, "C06");
}

pub fn run_c07(ctx: &RunCtx) {
    ctx.set_rule("generated programs with the scope-stress profile: names from small pools incl. pi, U, h, cx, tau, rz; declarations and uses at every scope kind to depth 5; use before declaration, use after scope exit, duplicates in one scope, shadowing, parameter / loop-variable collisions, double stdgates include; a share of plain programs re-walked with top-level statement runs moved into real include files (bindings made in an included file are global bindings). oracle: reference stack-of-maps resolution during the joint walk: bijection between reference declarations and SymbolIds, symbol names as written, unresolved = MissingBinding + Undefined type, duplicates = AlreadyBound; per-statement counts of UndefVarError / RedeclarationError; scope depth 1 at the end. non-trivial = >=1 shadowing / unresolved / duplicate event and >=3 scopes; distinct by model term");
    ctx.assume("self-reference inside an initializer or inside the own gate/def body is not generated (the statement does not settle it)");
    let n = ctx.pick(300_000u64, 5_000_000u64);
    run_joint(ctx, "C07", "scope-stress", n, Profile::scope_stress(), |j, _| (j.n_shadow + j.n_dup + j.n_missing) >= 1 && j.n_scopes >= 3);
    run_joint(ctx, "C07", "faulty", n / 2, Profile::faulty(), |j, _| (j.n_shadow + j.n_dup + j.n_missing) >= 1 && j.n_scopes >= 3);
    run_joint(ctx, "C07", "plain", n / 4, Profile::plain(), |j, _| j.n_scopes >= 3);
    run_joint_split(ctx, "C07", n / 6);
    deterministic_forms(ctx, "C07");
}

pub fn run_c13(ctx: &RunCtx) {
    ctx.set_rule("generated programs with the usage profile: otherwise well-typed and well-scoped programs in which each rule is independently violated or respected at random sites (standard, built-in and user gates with 0-4 parameters / 1-4 qubits, inv/pow modifiers, scalar/register/indexed/hardware operands, subroutine calls with -1/0/+1 arguments, assignment to const, qubit/gate/def declarations below global scope, return at global scope, non-duration delay, quantum operand of a binary operator). oracle: per innermost statement the multiset of the eight listed diagnostic kinds equals the reference multiset (missing and spurious). non-trivial = >=1 violated rule site; distinct by model term");
    ctx.assume("IncompatibleTypesError is not judged on statements containing an unresolved name, arity diagnostics are not judged for ctrl/negctrl-modified calls; indexing a scalar qubit and assignment to non-classical symbols are not generated");
    let n = ctx.pick(400_000u64, 5_000_000u64);
    run_joint(ctx, "C13", "usage", n, Profile::usage(), |j, _| j.n_usage_violated >= 1);
    run_joint(ctx, "C13", "plain", n / 4, Profile::plain(), |_, p| p.len() >= 4);
    deterministic_forms(ctx, "C13");
}

/// Small fixed programs covering each rule in both directions (deterministic, every tier).
fn deterministic_forms(ctx: &RunCtx, prefix: &str) {
    let mut progs = crate::semforms::fixed_programs();
    progs.extend(crate::semforms::probe_matrix());
    ctx.par_units(progs.len(), |i, st| {
        let (name, prog) = &progs[i];
        let seed = [0u32; 0];
        let mut src = Src::new(&seed);
        let pr = print_program(&mut src, prog, Style::Spaced);
        let mut rep = CaseReport::default();
        match joint(prog, &pr) {
            Some(j) if !j.crashed => {
                let pre = format!("{prefix}:");
                rep.failures = j
                    .fails
                    .into_iter()
                    .filter(|f| f.key.starts_with(&pre) || f.key.starts_with("HARNESS:"))
                    .map(|mut f| {
                        f.key = format!("{}@{}", f.key, name);
                        f
                    })
                    .collect();
                rep.nontrivial = Some(fnv64(name.as_bytes()));
            }
            _ => rep.discarded = true,
        }
        rep.class("fixed-form");
        if i % 7 == 0 {
            rep.sample = Some(pr.text.clone());
        }
        ctx.eval_local(prefix, st, rep);
    });
}

// ---------------- C17 ----------------

fn diag_list(res: &Analysis) -> Vec<(String, usize, usize)> {
    let mut v = vec![];
    all_semantic_errors(res.semantic_errors(), &mut v);
    v.into_iter().map(|(k, s, e, _)| (k, s, e)).collect()
}

fn symbols_list(res: &Analysis) -> Vec<(String, String)> {
    use oq3_semantics::symbols::SymbolType;
    res.symbol_table().verif_symbols().iter().map(|s| (s.name().to_string(), format!("{:?}", s.symbol_type()))).collect()
}

const NO_RENAME: &[&str] = &["pi", "π", "euler", "ℇ", "tau", "τ", "U"];

fn rename_map(prog: &[Stmt], salt: usize) -> std::collections::HashMap<String, String> {
    let mut names: Vec<String> = vec![];
    collect_names(prog, &mut names);
    names.sort();
    names.dedup();
    let mut m = std::collections::HashMap::new();
    for (i, n) in names.iter().enumerate() {
        if NO_RENAME.contains(&n.as_str()) || STD_GATES.iter().any(|g| g.0 == n) || n.starts_with('$') {
            continue;
        }
        let new = match salt % 5 {
            0 => format!("zr{}_{i}", salt),
            1 => format!("Ω{i}x"),
            2 => format!("{}__{}", n, i + 7),
            // mixed scripts: ASCII first, then a non-ASCII letter; continue-only characters inside
            3 => format!("v{i}ψ"),
            // (characters that `{:?}` prints as they are, since diagnostic kinds are compared
            // through their Debug rendering; a combining mark would be escaped there)
            _ => format!("_{i}\u{663}\u{b7}中k"),
        };
        m.insert(n.clone(), new);
    }
    m
}

fn collect_names(prog: &[Stmt], out: &mut Vec<String>) {
    // crude but complete: every word token of the printed program that is an identifier in the model
    let mut p = Printer::default();
    p.program(prog);
    for t in &p.toks {
        if t.class == TC::Word && !crate::lexgen::is_reserved(&t.text) && !t.tight_before && !t.text.contains(' ') {
            out.push(t.text.clone());
        }
    }
}

/// Print with an identifier renaming applied at token level (identifier tokens only).
fn print_renamed(src: &mut Src, prog: &[Stmt], style: Style, m: &std::collections::HashMap<String, String>) -> Printed {
    let mut p = Printer::default();
    p.program(prog);
    for t in p.toks.iter_mut() {
        if t.class == TC::Word && !t.tight_before {
            if let Some(n) = m.get(&t.text) {
                t.text = n.clone();
            }
        }
    }
    let laid = crate::layout::lay(src, &p.toks, style);
    Printed { text: laid.text, toks: p.toks, spans: p.spans, offsets: laid.offsets }
}

pub fn check_c17(src: &mut Src, prog: &[Stmt], out: &mut Vec<Failure>) -> bool {
    // one program in six also includes a file that does not exist (reported, analysis goes on):
    // what one analysis leaves behind must not change the next one
    let owned: Vec<Stmt>;
    let prog: &[Stmt] = if src.chance(1, 6) {
        let mut v = vec![Stmt::Include(format!("no_such_file_{}.inc", src.below(3)))];
        let at = src.below(prog.len() + 1);
        v.extend_from_slice(prog);
        // at the top or between two top-level statements
        v.rotate_left(1);
        let inc = v.pop().unwrap();
        v.insert(at, inc);
        owned = v;
        &owned
    } else {
        prog
    };
    let base = print_program(src, prog, Style::Spaced);
    if !clean_parse(&base.text) {
        return false;
    }
    let Ok(r0) = analyze(&base.text) else { return false };
    let stmts0 = format!("{:?}", r0.program().stmts());
    let syms0 = symbols_list(&r0);
    let kinds0: Vec<String> = diag_list(&r0).into_iter().map(|d| d.0).collect();
    let detail = |other: &str, what: String| json!({"input": {"source": base.text, "other": other}, "actual": what});
    // (d) determinism
    if let Ok(r1) = analyze(&base.text) {
        if r1.program() != r0.program() || r1.symbol_table() != r0.symbol_table() || diag_list(&r1) != diag_list(&r0) {
            out.push(Failure::new("C17:nondeterministic", detail(&base.text, String::new())));
        }
    }
    // (a) re-layouts
    for style in [Style::Minimal, Style::Wild, Style::Wild] {
        let p2 = print_program(src, prog, style);
        if !clean_parse(&p2.text) {
            out.push(Failure::new("C17:layout:syntax-diagnostics-appear", detail(&p2.text, String::new())));
            continue;
        }
        let Ok(r2) = analyze(&p2.text) else { continue };
        if format!("{:?}", r2.program().stmts()) != stmts0 {
            out.push(Failure::new("C17:layout:graph-differs", detail(&p2.text, first_diff(&stmts0, &format!("{:?}", r2.program().stmts())))));
        }
        if symbols_list(&r2) != syms0 {
            out.push(Failure::new("C17:layout:symbols-differ", detail(&p2.text, String::new())));
        }
        let k2: Vec<String> = diag_list(&r2).into_iter().map(|d| d.0).collect();
        if k2 != kinds0 {
            out.push(Failure::new("C17:layout:diagnostics-differ", detail(&p2.text, format!("{k2:?} vs {kinds0:?}"))));
        }
    }
    // (b) renamings
    for salt in 0..2usize {
        let m = rename_map(prog, salt + src.below(50) * 3);
        let p2 = print_renamed(src, prog, Style::Spaced, &m);
        if !clean_parse(&p2.text) {
            out.push(Failure::new("C17:rename:syntax-diagnostics-appear", detail(&p2.text, String::new())));
            continue;
        }
        let Ok(r2) = analyze(&p2.text) else { continue };
        if format!("{:?}", r2.program().stmts()) != stmts0 {
            out.push(Failure::new("C17:rename:graph-differs", detail(&p2.text, first_diff(&stmts0, &format!("{:?}", r2.program().stmts())))));
        }
        let mapped: Vec<(String, String)> = syms0.iter().map(|(n, t)| (m.get(n).cloned().unwrap_or(n.clone()), t.clone())).collect();
        if symbols_list(&r2) != mapped {
            out.push(Failure::new("C17:rename:symbols-differ", detail(&p2.text, String::new())));
        }
        let mapk: Vec<String> = kinds0
            .iter()
            .map(|k| match k.strip_prefix("RedeclarationError(\"").and_then(|r| r.strip_suffix("\")")) {
                Some(n) => format!("RedeclarationError(\"{}\")", m.get(n).cloned().unwrap_or(n.to_string())),
                None => k.clone(),
            })
            .collect();
        let k2: Vec<String> = diag_list(&r2).into_iter().map(|d| d.0).collect();
        if k2 != mapk {
            out.push(Failure::new("C17:rename:diagnostics-differ", detail(&p2.text, format!("{k2:?} vs {mapk:?}"))));
        }
    }
    // (c) every split point at a top-level statement boundary
    let all_stmts: Vec<String> = r0.program().stmts().iter().map(|s| format!("{s:?}")).collect();
    let diags0 = diag_list(&r0);
    let tops: Vec<&Span> = base.spans.iter().filter(|s| s.is_stmt && s.depth == 0).collect();
    let mut prefixes: Vec<String> = vec![];
    for k in 1..tops.len() {
        let end_tok = tops[k - 1].end;
        if end_tok == 0 || end_tok > base.offsets.len() {
            continue;
        }
        let cut = base.offsets[end_tok - 1].1;
        let mut prefix = base.text[..cut].to_string();
        if base.toks[end_tok - 1].class == TC::Line {
            prefix.push('\n');
        }
        prefixes.push(prefix);
    }
    // ... and the split point between the annotation lines of a top-level statement and the
    // statement itself (the program then ends in annotations that have nothing to attach to)
    for (k, t) in tops.iter().enumerate() {
        if !matches!(prog.get(k), Some(Stmt::Annotated(..))) || tops.len() != prog.len() {
            continue;
        }
        let start = base.offsets[t.start].0;
        let rest = &base.text[start..];
        let mut cut = 0usize;
        loop {
            let tail = &rest[cut..];
            let lead = tail.len() - tail.trim_start().len();
            if tail[lead..].starts_with('@') {
                match tail[lead..].find('\n') {
                    Some(nl) => cut += lead + nl + 1,
                    None => break,
                }
            } else {
                break;
            }
        }
        if cut > 0 {
            prefixes.push(base.text[..start + cut].to_string());
        }
    }
    for prefix in prefixes {
        if !clean_parse(&prefix) {
            continue;
        }
        let Ok(rp) = analyze(&prefix) else { continue };
        let ps: Vec<String> = rp.program().stmts().iter().map(|s| format!("{s:?}")).collect();
        if ps.len() > all_stmts.len() || ps[..] != all_stmts[..ps.len()] {
            out.push(Failure::new("C17:prefix:statements-not-a-prefix", detail(&prefix, format!("{} vs {}", ps.len(), all_stmts.len()))));
        }
        let sp = symbols_list(&rp);
        if sp.len() > syms0.len() || sp[..] != syms0[..sp.len()] {
            out.push(Failure::new("C17:prefix:symbols-not-a-prefix", detail(&prefix, String::new())));
        }
        let dp = diag_list(&rp);
        if dp.len() > diags0.len() || dp[..] != diags0[..dp.len()] {
            out.push(Failure::new("C17:prefix:diagnostics-not-a-prefix", detail(&prefix, format!("{dp:?} vs {:?}", &diags0[..dp.len().min(diags0.len())]))));
        }
    }
    true
}

fn first_diff(a: &str, b: &str) -> String {
    let i = a.bytes().zip(b.bytes()).position(|(x, y)| x != y).unwrap_or(a.len().min(b.len()));
    let lo = i.saturating_sub(60);
    let cut = |s: &str| {
        let mut l = lo.min(s.len());
        while !s.is_char_boundary(l) {
            l -= 1;
        }
        let mut h = (i + 60).min(s.len());
        while !s.is_char_boundary(h) {
            h += 1;
        }
        s[l..h].to_string()
    };
    format!("…{}… vs …{}…", cut(a), cut(b))
}

pub fn run_c17(ctx: &RunCtx) {
    ctx.set_rule("generated programs (valid and with semantic faults) x (a) 3 re-layouts, (b) 2 injective renamings of user identifiers to fresh names (ASCII and Unicode), (c) every split point at a top-level statement boundary, (d) a second run. oracle: graph (Debug rendering, which contains symbol ids but no names or ranges), symbol list (name, type) and ordered diagnostic kinds are identical / identical up to the renaming / prefixes; Program and SymbolTable equal under PartialEq on the second run. non-trivial = >=4 statements and >=1 nested scope; distinct by model term");
    ctx.assume("renaming never touches keywords, built-in constants, U, standard-gate names or hardware qubits");
    let n = ctx.pick(30_000u64, 1_000_000u64);
    // a case costs ~8 analyses: keep shrinking short
    ctx.shrink_iters.store(2_000, std::sync::atomic::Ordering::Relaxed);
    for (name, profile) in [("plain", Profile::plain()), ("faulty", Profile::faulty()), ("scope-stress", Profile::scope_stress())] {
        ctx.random(name, n, 1400, |src| {
            let prog = gen_program(src, &profile);
            let mut rep = CaseReport::default();
            let judged = check_c17(src, &prog, &mut rep.failures);
            rep.discarded = !judged;
            rep.class(name);
            if prog.len() >= 4 && depth_of(&prog) >= 1 {
                rep.nontrivial = Some(fnv64(r_program(&prog).as_bytes()));
            }
            rep.sample = Some(r_program(&prog));
            rep
        });
    }
}

pub fn replay_c17(v: &serde_json::Value) -> Result<Vec<Failure>, String> {
    let choices: Vec<u32> = v["choices"].as_array().ok_or("no choices")?.iter().filter_map(|x| x.as_u64().map(|n| n as u32)).collect();
    let profile = match v["check"].as_str().unwrap_or("") {
        "scope-stress" => Profile::scope_stress(),
        "faulty" => Profile::faulty(),
        _ => Profile::plain(),
    };
    let mut src = Src::new(&choices);
    let prog = gen_program(&mut src, &profile);
    let mut out = vec![];
    check_c17(&mut src, &prog, &mut out);
    Ok(out)
}

// ---------------- syntax fault injection (C11 gating) ----------------

pub fn inject_syntax_fault(src: &mut Src, text: &str) -> String {
    let toks = crate::textgen::coarse_tokens(text);
    if toks.is_empty() {
        return ")".to_string();
    }
    let mut v: Vec<String> = toks.iter().map(|s| s.to_string()).collect();
    let i = src.below(v.len());
    match src.below(8) {
        0 => {
            // drop a semicolon
            if let Some(j) = v.iter().rposition(|t| t == ";") {
                v.remove(j);
            } else {
                v.push("(".into());
            }
        }
        1 => v.insert(i, ")".into()),
        2 => v.insert(i, "}".into()),
        3 => v.insert(i, " @@ ".into()),
        4 => v.push(" \"abc".into()),
        5 => v.insert(i, " 0x ".into()),
        6 => {
            v.remove(i);
        }
        _ => v.insert(i, " if ".into()),
    }
    v.concat()
}

// ---------------- C12 semantic half ----------------

pub fn check_c12_semantic(text: &str, out: &mut Vec<Failure>) -> Option<(usize, bool)> {
    if !clean_parse(text) {
        return None;
    }
    let res = analyze(text).ok()?;
    let r = guarded(|| {
        let mut fails: Vec<(String, String)> = vec![];
        let tree = res.syntax_result().syntax_ast().map(|a| a.syntax_node());
        let mut ranges = std::collections::HashSet::new();
        if let Some(t) = &tree {
            for n in t.descendants() {
                let r = n.text_range();
                ranges.insert((usize::from(r.start()), usize::from(r.end())));
            }
        }
        let mut errs = vec![];
        all_semantic_errors(res.semantic_errors(), &mut errs);
        let mut multibyte_before = false;
        for (kind, s, e, _path) in &errs {
            let k = kind_base(kind);
            if s > e || *e > text.len() {
                fails.push((format!("C12:semantic:range-out-of-bounds:{k}"), format!("{s}..{e} len {}", text.len())));
                continue;
            }
            if !text.is_char_boundary(*s) || !text.is_char_boundary(*e) {
                fails.push((format!("C12:semantic:range-not-char-boundary:{k}"), format!("{s}..{e}")));
                continue;
            }
            if !ranges.contains(&(*s, *e)) {
                fails.push((format!("C12:semantic:range-is-not-a-node:{k}"), format!("{s}..{e} {:?}", &text[*s..*e])));
            }
            if text[..*s].len() != text[..*s].chars().count() {
                multibyte_before = true;
            }
        }
        (fails, errs.len(), multibyte_before)
    });
    match r {
        Ok((fails, n, mb)) => {
            for (k, d) in fails {
                out.push(Failure::new(k, json!({"input": {"source": text}, "actual": d})));
            }
            Some((n, mb))
        }
        Err(p) => {
            out.push(Failure::new(format!("C12:semantic:{}", panic_key(&p)), json!({"input": {"source": text}, "actual": p.msg})));
            Some((0, false))
        }
    }
}

pub fn run_c12_semantic(ctx: &RunCtx) {
    let n = ctx.pick(60_000u64, 5_000_000u64);
    for (name, profile) in [("faulty", Profile::faulty()), ("usage", Profile::usage()), ("scope-stress", Profile::scope_stress())] {
        let mut profile = profile;
        profile.unicode_names = true;
        ctx.random(&format!("semantic-{name}"), n, 1200, |src| {
            let style = [Style::Minimal, Style::Spaced, Style::Wild][src.below(3)];
            let prog = gen_program(src, &profile);
            // non-ASCII material before the diagnostics: a leading comment and unicode names
            let pr = print_program(src, &prog, style);
            let text = if src.bool() { format!("// ünïcödé 中文 😀\n{}", pr.text) } else { pr.text };
            let mut rep = CaseReport::default();
            match check_c12_semantic(&text, &mut rep.failures) {
                None => rep.discarded = true,
                Some((n, mb)) => {
                    if n >= 1 {
                        rep.nontrivial = Some(fnv64(text.as_bytes()));
                    }
                    rep.class(if mb { "diagnostic-after-multibyte" } else if n > 0 { "diagnostic" } else { "no-diagnostic" });
                }
            }
            rep.sample = Some(text);
            rep
        });
    }
}
