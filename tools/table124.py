#!/usr/bin/env python3
"""Developer tool: rewrite the measured table of DESIGN.md §12.4 from evidence/*.json (quick tier,
as last run) and a log of a thorough sweep (lines `property=Cxx tier=Thorough ... wall_s=..`).
usage: table124.py <thorough-log>"""
import json, re, sys, os
ROOT = os.path.dirname(os.path.dirname(os.path.abspath(__file__)))
def fmt(n):
    n = int(n)
    if n >= 10_000_000: return f"{n/1e6:.1f} M"
    if n >= 1_000_000: return f"{n/1e6:.1f} M"
    if n >= 10_000: return f"{round(n/1e3)} k"
    if n >= 1000: return f"{n/1e3:.1f} k"
    return str(n)
thor = {}
for l in open(sys.argv[1], errors="replace"):
    m = re.search(r"property=(C\d\d) tier=Thorough .*evaluations=(\d+) distinct_nontrivial=(\d+) .*wall_s=([\d.]+)", l)
    if m: thor[m.group(1)] = (int(m.group(2)), int(m.group(3)), float(m.group(4)))
FUZZ = {"C01", "C02", "C03", "C11", "C12", "C14"}
rows = []
for i in range(1, 21):
    pid = f"C{i:02d}"
    e = json.load(open(os.path.join(ROOT, "evidence", pid + ".json")))
    assert e["tier"] == "quick", (pid, e["tier"])
    c = e["coverage"]
    q = f"{fmt(c['evaluations'])} / {fmt(c['distinct_nontrivial'])} / {round(e['wall_s'])} s"
    if pid in thor:
        t = thor[pid]
        ts = f"{fmt(t[0])} / {fmt(t[1])} / {round(t[2])} s" + (" (incl. libFuzzer)" if pid in FUZZ else "")
    else:
        ts = "—"
    rows.append(f"| {pid} | {q} | {ts} |")
p = os.path.join(ROOT, "DESIGN.md")
s = open(p).read()
m = re.search(r"(\| property \| quick: evaluations / distinct non-trivial / wall \| thorough: evaluations / distinct non-trivial / wall \|\n\|---\|---\|---\|\n)((?:\| C\d\d \|.*\n)+)", s)
assert m
s = s[:m.start(2)] + "\n".join(rows) + "\n" + s[m.end(2):]
open(p, "w").write(s)
print("\n".join(rows))
