//! Reference analyser + joint walk (DESIGN.md §5.3, §5.4): walks a model program together with
//! the semantic graph produced by the implementation, maintaining the reference scope stack,
//! and reports structure (C06), resolution (C07), declared-type (C09) and usage-rule (C13)
//! discrepancies. Implicit casts inserted by the implementation are skipped (C08's business).

use crate::engine::Failure;
use crate::model::*;
use oq3_semantics::asg;
use oq3_semantics::symbols::{SymbolId, SymbolIdResult, SymbolTable, SymbolType};
use oq3_semantics::types::{ArrayDims, IsConst, SubroutineDef, Type};
use serde_json::json;
use std::collections::HashMap;

#[derive(Clone, Debug)]
pub struct Decl {
    pub name: String,
    /// reference type; None = not judged (e.g. alias, unknown width)
    pub ty: Option<Type>,
    pub form: &'static str,
    pub const_int: Option<i128>,
}

#[derive(Clone, Copy, PartialEq, Eq, Debug)]
pub enum ScopeKind {
    Global,
    Subroutine,
    Local,
}

pub struct Walk<'a> {
    pub table: &'a SymbolTable,
    scopes: Vec<(ScopeKind, HashMap<String, usize>)>,
    pub decls: Vec<Decl>,
    map: HashMap<usize, SymbolId>,
    rev: HashMap<SymbolId, usize>,
    pub fails: Vec<Failure>,
    /// expected diagnostics: (statement ordinal, kind)
    pub expected: Vec<(usize, String)>,
    /// statement ordinals that contain an unresolved name (IncompatibleTypes not judged there)
    pub has_unresolved: Vec<usize>,
    /// ordinals of statements whose arity diagnostics are not judged (ctrl/negctrl)
    pub arity_unjudged: Vec<usize>,
    ordinal: usize,
    cur: Vec<usize>,
    pub stdgates: bool,
    src: &'a str,
    pub n_shadow: usize,
    pub n_dup: usize,
    pub n_missing: usize,
    pub n_scopes: usize,
    pub judged_types: usize,
}

pub const STD_GATES: &[(&str, usize, usize)] = &[
    ("x", 0, 1), ("y", 0, 1), ("z", 0, 1), ("h", 0, 1), ("s", 0, 1), ("sdg", 0, 1), ("t", 0, 1), ("tdg", 0, 1),
    ("sx", 0, 1), ("id", 0, 1), ("p", 1, 1), ("rx", 1, 1), ("ry", 1, 1), ("rz", 1, 1), ("phase", 1, 1), ("u1", 1, 1),
    ("u2", 2, 1), ("u3", 3, 1), ("cx", 0, 2), ("cy", 0, 2), ("cz", 0, 2), ("ch", 0, 2), ("swap", 0, 2), ("CX", 0, 2),
    ("cp", 1, 2), ("crx", 1, 2), ("cry", 1, 2), ("crz", 1, 2), ("cphase", 1, 2), ("cu", 4, 2), ("ccx", 0, 3),
    ("cswap", 0, 3),
];

fn c(b: bool) -> IsConst {
    if b {
        IsConst::True
    } else {
        IsConst::False
    }
}

pub fn strip_const(t: &Type) -> Type {
    use Type::*;
    let f = IsConst::False;
    match t {
        Bit(_) => Bit(f),
        Int(w, _) => Int(*w, f),
        UInt(w, _) => UInt(*w, f),
        Float(w, _) => Float(*w, f),
        Angle(w, _) => Angle(*w, f),
        Complex(w, _) => Complex(*w, f),
        Bool(_) => Bool(f),
        Duration(_) => Duration(f),
        Stretch(_) => Stretch(f),
        BitArray(d, _) => BitArray(d.clone(), f),
        SubroutineDef(d) => SubroutineDef(oq3_semantics::types::SubroutineDef { num_params: d.num_params, return_type: Box::new(strip_const(&d.return_type)) }),
        other => other.clone(),
    }
}

/// Value of an integer literal spelling (model side; std parsing is the trusted base).
pub fn int_value(s: &str) -> Option<u128> {
    let t = s.replace('_', "");
    let (radix, digits) = match t.get(..2) {
        Some("0b") | Some("0B") => (2, &t[2..]),
        Some("0o") | Some("0O") => (8, &t[2..]),
        Some("0x") | Some("0X") => (16, &t[2..]),
        _ => (10, &t[..]),
    };
    u128::from_str_radix(digits, radix).ok()
}

impl<'a> Walk<'a> {
    pub fn new(table: &'a SymbolTable, src: &'a str) -> Walk<'a> {
        let mut w = Walk {
            table,
            scopes: vec![(ScopeKind::Global, HashMap::new())],
            decls: vec![],
            map: HashMap::new(),
            rev: HashMap::new(),
            fails: vec![],
            expected: vec![],
            has_unresolved: vec![],
            arity_unjudged: vec![],
            ordinal: 0,
            cur: vec![],
            stdgates: false,
            src,
            n_shadow: 0,
            n_dup: 0,
            n_missing: 0,
            n_scopes: 1,
            judged_types: 0,
        };
        for n in ["pi", "π", "euler", "ℇ", "tau", "τ"] {
            w.bind_silent(n, Some(Type::Float(Some(64), IsConst::True)), "builtin-const");
        }
        w.bind_silent("U", Some(Type::Gate(3, 1)), "builtin-gate");
        w
    }

    fn fail(&mut self, key: String, expected: String, actual: String) {
        if self.fails.len() < 20 {
            self.fails.push(Failure::new(key, json!({"input": {"source": self.src}, "expected": expected, "actual": actual})));
        }
    }

    fn bind_silent(&mut self, name: &str, ty: Option<Type>, form: &'static str) -> usize {
        let id = self.decls.len();
        self.decls.push(Decl { name: name.to_string(), ty, form, const_int: None });
        self.scopes.last_mut().unwrap().1.insert(name.to_string(), id);
        id
    }

    fn lookup(&self, name: &str) -> Option<usize> {
        for (_, s) in self.scopes.iter().rev() {
            if let Some(i) = s.get(name) {
                return Some(*i);
            }
        }
        None
    }

    fn scope_kind(&self) -> ScopeKind {
        self.scopes.last().unwrap().0
    }

    fn enter(&mut self, k: ScopeKind) {
        self.scopes.push((k, HashMap::new()));
        self.n_scopes += 1;
    }
    fn exit(&mut self) {
        self.scopes.pop();
    }

    fn expect_diag(&mut self, kind: &str) {
        let ord = *self.cur.last().unwrap_or(&0);
        self.expected.push((ord, kind.to_string()));
    }

    fn mark_unresolved(&mut self) {
        let ord = *self.cur.last().unwrap_or(&0);
        self.has_unresolved.push(ord);
        self.n_missing += 1;
    }

    /// Relate a model declaration to the implementation's symbol id.
    fn relate(&mut self, decl: usize, got: &SymbolIdResult, role: &str, written: &str) {
        match got {
            Ok(id) => {
                match (self.map.get(&decl).cloned(), self.rev.get(id).cloned()) {
                    (None, None) => {
                        self.map.insert(decl, id.clone());
                        self.rev.insert(id.clone(), decl);
                    }
                    (Some(old), _) if &old != id => {
                        self.fail(format!("C07:bijection:{role}:same-declaration-different-symbols"), format!("{written} -> {old:?}"), format!("{id:?}"));
                    }
                    (_, Some(d)) if d != decl => {
                        let other = self.decls[d].name.clone();
                        self.fail(format!("C07:bijection:{role}:different-declarations-same-symbol"), format!("{written}: its own symbol"), format!("{id:?} also used for declaration of {other}"));
                    }
                    _ => {}
                }
                // the symbol's name is the identifier as written
                let idx = SymbolTable::verif_symbol_index(id);
                if idx >= self.table.verif_symbols().len() {
                    self.fail(format!("C07:dangling-symbol-id:{role}"), written.to_string(), format!("{id:?}"));
                } else if self.table[id].name() != written {
                    let n = self.table[id].name().to_string();
                    self.fail(format!("C07:name:{role}"), written.to_string(), n);
                }
            }
            Err(e) => {
                self.fail(format!("C07:resolve:{role}:exp=resolved:got={e:?}"), format!("{written} resolves to a declaration"), format!("{e:?}"));
            }
        }
    }

    /// A use of `name`: returns the declaration it refers to in the model.
    fn use_name(&mut self, name: &str, got: Option<&SymbolIdResult>, role: &str, undef_kind: &str) -> Option<usize> {
        let d = self.lookup(name);
        match d {
            Some(decl) => {
                if self.scopes.iter().rev().skip_while(|(_, s)| !s.contains_key(name)).skip(1).any(|(_, s)| s.contains_key(name)) {
                    self.n_shadow += 1;
                }
                if let Some(g) = got {
                    self.relate(decl, g, role, name);
                }
            }
            None => {
                self.expect_diag(undef_kind);
                self.mark_unresolved();
                if let Some(g) = got {
                    match g {
                        Err(oq3_semantics::symbols::SymbolError::MissingBinding) => {}
                        other => self.fail(format!("C07:resolve:{role}:exp=unresolved:got={}", if other.is_ok() { "resolved".to_string() } else { format!("{other:?}") }), format!("{name} has no visible declaration"), format!("{other:?}")),
                    }
                }
            }
        }
        d
    }

    /// A declaration of `name` in the current scope.
    fn declare(&mut self, name: &str, ty: Option<Type>, form: &'static str, got: Option<&SymbolIdResult>, role: &str) -> Option<usize> {
        if self.scopes.last().unwrap().1.contains_key(name) {
            self.expect_diag("RedeclarationError");
            self.n_dup += 1;
            if let Some(g) = got {
                match g {
                    Err(oq3_semantics::symbols::SymbolError::AlreadyBound) => {}
                    other => self.fail(format!("C07:resolve:{role}:exp=already-bound:got={}", if other.is_ok() { "new-symbol".to_string() } else { format!("{other:?}") }), format!("second declaration of {name} in the same scope"), format!("{other:?}")),
                }
            }
            return None;
        }
        let id = self.bind_silent(name, ty.clone(), form);
        if let Some(g) = got {
            match g {
                Ok(sid) => {
                    if self.rev.contains_key(sid) {
                        let other = self.decls[self.rev[sid]].name.clone();
                        self.fail(format!("C07:bijection:{role}:new-declaration-reuses-symbol"), format!("fresh symbol for {name}"), format!("{sid:?} already denotes {other}"));
                    } else {
                        self.relate(id, g, role, name);
                        // C09: declared type
                        if let Some(t) = &ty {
                            self.judged_types += 1;
                            let idx = SymbolTable::verif_symbol_index(sid);
                            if idx < self.table.verif_symbols().len() {
                                let actual = self.table[sid].symbol_type().clone();
                                let same = if form == "def" { strip_const(&actual) == strip_const(t) } else { &actual == t };
                                if !same {
                                    let base = format!("{:?}", t.base_type());
                                    self.fail(format!("C09:type:{form}:{base}"), format!("{name}: {t:?}"), format!("{actual:?}"));
                                }
                            }
                        }
                    }
                }
                Err(e) => self.fail(format!("C07:resolve:{role}:exp=new-symbol:got={e:?}"), format!("declaration of {name} binds a new symbol"), format!("{e:?}")),
            }
        }
        Some(id)
    }

    // ---------------- types ----------------

    /// Evaluate a designator: Some(width) if it is a non-negative integer literal that fits 32
    /// bits or a const integer identifier with such a value; records look-ups.
    fn designator(&mut self, e: &Expr) -> Option<u32> {
        match strip_paren(e) {
            Expr::Int(s) => int_value(s).and_then(|v| u32::try_from(v).ok()),
            Expr::Ident(n) => {
                let d = self.use_name(n, None, "designator", "UndefVarError")?;
                let v = self.decls[d].const_int?;
                u32::try_from(v).ok()
            }
            other => {
                self.model_only_expr(other);
                None
            }
        }
    }

    /// Reference type of a written scalar type; None if the width cannot be determined.
    pub fn ref_type(&mut self, t: &Ty, konst: bool) -> Option<Type> {
        let k = c(konst);
        let w = match t.desig() {
            Some(d) => Some(self.designator(d)?),
            None => None,
        };
        Some(match t {
            Ty::Bit(_) => match w {
                Some(n) => Type::BitArray(ArrayDims::D1(n as usize), k),
                None => Type::Bit(k),
            },
            Ty::Int(_) => Type::Int(w, k),
            Ty::UInt(_) => Type::UInt(w, k),
            Ty::Float(_) => Type::Float(w, k),
            Ty::Angle(_) => Type::Angle(w, k),
            Ty::Complex(_) => Type::Complex(w, k),
            Ty::Bool => Type::Bool(k),
            Ty::Duration => Type::Duration(k),
            Ty::Stretch => Type::Stretch(k),
        })
    }

    // ---------------- expressions ----------------

    fn model_only_expr(&mut self, e: &Expr) {
        self.expr(e, None, "expr");
    }

    fn decl_type(&self, d: Option<usize>) -> Option<Type> {
        d.and_then(|i| self.decls[i].ty.clone())
    }

    /// Coarse reference type of a model expression (only what the usage rules need).
    fn coarse_type(&self, e: &Expr) -> Option<Type> {
        match strip_paren(e) {
            Expr::Ident(n) => self.decl_type(self.lookup(n)),
            Expr::Timing(..) => Some(Type::Duration(IsConst::True)),
            Expr::Un(UnOp::Neg, x) if matches!(**x, Expr::Timing(..)) => Some(Type::Duration(IsConst::True)),
            Expr::Int(_) => Some(Type::Int(Some(128), IsConst::True)),
            Expr::Float(_) => Some(Type::Float(Some(64), IsConst::True)),
            Expr::Bool(_) => Some(Type::Bool(IsConst::True)),
            Expr::Hw(_) => Some(Type::HardwareQubit),
            // an element or slice of a declared register or variable that is not a duration, a
            // comparison, a cast to another type: certainly not a duration
            Expr::IndexedId(n, _) => match self.decl_type(self.lookup(n)) {
                Some(Type::Duration(_)) | None => None,
                Some(_) => Some(Type::Bit(IsConst::False)),
            },
            Expr::Bin(BinOp::Eq | BinOp::Neq, ..) => Some(Type::Bool(IsConst::False)),
            Expr::Cast(t, _) if !matches!(t, Ty::Duration | Ty::Stretch) => Some(Type::Bool(IsConst::False)),
            _ => None,
        }
    }

    fn skip_casts<'b>(&self, m: &Expr, mut a: &'b asg::TExpr) -> &'b asg::TExpr {
        loop {
            if let asg::Expr::Cast(cast) = a.expression() {
                if let Expr::Cast(t, _) = m {
                    // explicit cast in the model: the graph's cast with the same base type is it
                    let want = t.name();
                    let got = format!("{:?}", cast.get_type().base_type()).to_lowercase();
                    let matches = got == want || (want == "bit" && got == "bitarray");
                    if matches {
                        return a;
                    }
                }
                a = cast.operand();
                continue;
            }
            return a;
        }
    }

    fn lit_class(e: &asg::Expr) -> String {
        match e {
            asg::Expr::Literal(l) => match l {
                asg::Literal::Bool(_) => "bool".into(),
                asg::Literal::Int(_) => "int".into(),
                asg::Literal::Float(_) => "float".into(),
                asg::Literal::ImaginaryInt(_) => "imag-int".into(),
                asg::Literal::ImaginaryFloat(_) => "imag-float".into(),
                asg::Literal::BitString(_) => "bitstring".into(),
                asg::Literal::TimingIntLiteral(_) => "timing-int".into(),
                asg::Literal::TimingFloatLiteral(_) => "timing-float".into(),
                asg::Literal::Array => "array".into(),
            },
            other => variant_name(other),
        }
    }

    fn expect_literal(&mut self, class: &str, got: Option<&asg::TExpr>, m: &Expr, neg: bool) {
        let Some(a) = got else { return };
        let gc = Self::lit_class(a.expression());
        if gc != class {
            self.fail(format!("C06:literal-class:exp={class}:got={gc}"), r_expr(m), format!("{:?}", a.expression()));
            return;
        }
        // values (coarse; exactness is C10's subject): integer value and sign, boolean value
        match (m, a.expression()) {
            (Expr::Int(s), asg::Expr::Literal(asg::Literal::Int(l))) => {
                if Some(*l.value()) != int_value(s) || *l.sign() == neg {
                    self.fail("C06:literal-value:int".into(), format!("{}{s}", if neg { "-" } else { "" }), format!("{l:?}"));
                }
            }
            (Expr::Bool(b), asg::Expr::Literal(asg::Literal::Bool(l))) => {
                if l.value() != b {
                    self.fail("C06:literal-value:bool".into(), format!("{b}"), format!("{l:?}"));
                }
            }
            (Expr::Imag(..), asg::Expr::Literal(asg::Literal::ImaginaryInt(l))) => {
                if *l.sign() == neg {
                    self.fail("C06:literal-value:imag-sign".into(), format!("negated={neg}"), format!("{l:?}"));
                }
            }
            (Expr::Imag(..), asg::Expr::Literal(asg::Literal::ImaginaryFloat(l))) => {
                if l.value().starts_with('-') != neg {
                    self.fail("C06:literal-value:imag-sign".into(), format!("negated={neg}"), format!("{l:?}"));
                }
            }
            (Expr::Timing(_, _, unit, _), asg::Expr::Literal(asg::Literal::TimingIntLiteral(l))) => {
                if *l.sign() == neg {
                    self.fail("C06:literal-value:timing-sign".into(), format!("negated={neg}"), format!("{l:?}"));
                }
                let u = format!("{:?}", l.time_unit());
                if !unit_matches(unit, &u) {
                    self.fail("C06:literal-value:time-unit".into(), unit.clone(), u);
                }
            }
            (Expr::Timing(_, _, unit, _), asg::Expr::Literal(asg::Literal::TimingFloatLiteral(l))) => {
                if *l.sign() == neg {
                    self.fail("C06:literal-value:timing-sign".into(), format!("negated={neg}"), format!("{l:?}"));
                }
                let u = format!("{:?}", l.time_unit());
                if !unit_matches(unit, &u) {
                    self.fail("C06:literal-value:time-unit".into(), unit.clone(), u);
                }
            }
            _ => {}
        }
    }

    fn expr_list(&mut self, ms: &[Expr], got: Option<&[asg::TExpr]>, what: &str) {
        if let Some(g) = got {
            if g.len() != ms.len() {
                self.fail(format!("C06:list-length:{what}"), format!("{} items", ms.len()), format!("{} items", g.len()));
            }
        }
        for (i, m) in ms.iter().enumerate() {
            let a = got.and_then(|g| g.get(i));
            self.expr(m, a, what);
        }
    }

    fn index(&mut self, m: &Index, got: Option<&asg::IndexOperator>) {
        match m {
            Index::Set(es) => {
                let g = match got {
                    Some(asg::IndexOperator::SetExpression(s)) => Some(s.expressions()),
                    Some(other) => {
                        self.fail("C06:index-kind:exp=set".into(), "set".into(), variant_name(other));
                        None
                    }
                    None => None,
                };
                self.expr_list(es, g, "index-set");
            }
            Index::List(items) => {
                let g: Option<&[asg::TExpr]> = match got {
                    Some(asg::IndexOperator::ExpressionList(l)) => Some(&l.expressions[..]),
                    Some(other) => {
                        self.fail("C06:index-kind:exp=list".into(), "list".into(), variant_name(other));
                        None
                    }
                    None => None,
                };
                if let Some(g) = g {
                    if g.len() != items.len() {
                        self.fail("C06:list-length:index-list".into(), format!("{}", items.len()), format!("{}", g.len()));
                    }
                }
                for (i, it) in items.iter().enumerate() {
                    let a = g.and_then(|g| g.get(i));
                    match it {
                        IndexItem::Expr(e) => self.expr(e, a, "index-item"),
                        IndexItem::Range(s, st, e) => {
                            let r = match a.map(|x| x.expression()) {
                                Some(asg::Expr::RangeExpression(r)) => Some(&**r),
                                Some(other) => {
                                    let v = variant_name(other);
                                    self.fail("C06:expr-kind:exp=range".into(), "range".into(), v);
                                    None
                                }
                                None => None,
                            };
                            self.range(s, st.as_ref(), e, r);
                        }
                    }
                }
            }
        }
    }

    fn range(&mut self, s: &Expr, st: Option<&Expr>, e: &Expr, r: Option<&asg::RangeExpression>) {
        self.expr(s, r.map(|r| r.start()), "range-start");
        match (st, r.map(|r| r.step())) {
            (Some(m), g) => self.expr(m, g.flatten(), "range-step"),
            (None, Some(Some(extra))) => {
                let x = format!("{:?}", extra.expression());
                self.fail("C06:range:unexpected-step".into(), "no step".into(), x)
            }
            _ => {}
        }
        self.expr(e, r.map(|r| r.stop()), "range-stop");
    }

    fn indexed(&mut self, name: &str, ixs: &[Index], got: Option<&asg::IndexedIdentifier>, role: &str) -> Option<usize> {
        let d = self.use_name(name, got.map(|g| g.identifier()), role, "UndefVarError");
        if let Some(g) = got {
            if g.indexes().len() != ixs.len() {
                self.fail("C06:list-length:index-operators".into(), format!("{}", ixs.len()), format!("{}", g.indexes().len()));
            }
        }
        for (i, ix) in ixs.iter().enumerate() {
            let a = got.and_then(|g| g.indexes().get(i));
            self.index(ix, a);
        }
        d
    }

    fn is_quantum(t: &Option<Type>) -> bool {
        matches!(t, Some(Type::Qubit) | Some(Type::QubitArray(_)) | Some(Type::HardwareQubit))
    }

    pub fn expr(&mut self, m: &Expr, got: Option<&asg::TExpr>, ctx: &str) {
        let m = strip_paren(m);
        let got = got.map(|g| self.skip_casts(m, g));
        let ge = got.map(|g| g.expression());
        match m {
            Expr::Int(_) => self.expect_literal("int", got, m, false),
            Expr::Float(_) => self.expect_literal("float", got, m, false),
            Expr::Bool(_) => self.expect_literal("bool", got, m, false),
            Expr::BitStr(s) => {
                self.expect_literal("bitstring", got, m, false);
                if let Some(asg::Expr::Literal(asg::Literal::BitString(b))) = ge {
                    let want: String = s[1..s.len() - 1].to_string();
                    if b.value().replace('_', "") != want.replace('_', "") {
                        let v = b.value().to_string();
                        self.fail("C06:literal-value:bitstring".into(), want, v);
                    }
                }
            }
            Expr::Timing(_, f, _, _) => self.expect_literal(if *f { "timing-float" } else { "timing-int" }, got, m, false),
            Expr::Imag(_, f, _) => self.expect_literal(if *f { "imag-float" } else { "imag-int" }, got, m, false),
            Expr::Str(_) | Expr::ArrayLit(_) | Expr::IndexExpr(..) => {
                // outside the supported subset: not compared
            }
            Expr::Ident(n) => {
                let sym = match ge {
                    Some(asg::Expr::Identifier(s)) => Some(s),
                    Some(other) => {
                        let v = variant_name(other);
                        self.fail(format!("C06:expr-kind:exp=identifier:got={v}"), r_expr(m), v.clone());
                        None
                    }
                    None => None,
                };
                let d = self.use_name(n, sym, "ident-expr", "UndefVarError");
                if d.is_none() {
                    if let Some(g) = got {
                        if g.get_type() != &Type::Undefined {
                            let t = format!("{:?}", g.get_type());
                            self.fail("C07:unresolved-not-typed-undefined".into(), "Undefined".into(), t);
                        }
                    }
                }
            }
            Expr::Hw(n) => {
                if let Some(ge) = ge {
                    match ge {
                        asg::Expr::HardwareQubit(h) if h.identifier() == n => {}
                        other => {
                            let v = format!("{other:?}");
                            self.fail("C06:expr-kind:exp=hardware-qubit".into(), n.clone(), v)
                        }
                    }
                }
            }
            Expr::Paren(_) => unreachable!(),
            Expr::Un(UnOp::Neg, x) => {
                match strip_paren_once(x) {
                    // a minus sign directly applied to a numeric literal yields the negated literal
                    Expr::Int(_) if !matches!(**x, Expr::Paren(_)) => self.expect_literal("int", got, x, true),
                    Expr::Float(_) if !matches!(**x, Expr::Paren(_)) => self.expect_literal("float", got, x, false),
                    Expr::Imag(_, f, _) if !matches!(**x, Expr::Paren(_)) => self.expect_literal(if *f { "imag-float" } else { "imag-int" }, got, x, true),
                    Expr::Timing(_, f, _, _) if !matches!(**x, Expr::Paren(_)) => self.expect_literal(if *f { "timing-float" } else { "timing-int" }, got, x, true),
                    _ => {
                        let inner = match ge {
                            Some(asg::Expr::UnaryExpr(u)) => {
                                if !matches!(u.op(), asg::UnaryOp::Minus) {
                                    let o = format!("{:?}", u.op());
                                    self.fail("C06:operator:exp=unary-minus".into(), "-".into(), o);
                                }
                                Some(u.operand())
                            }
                            Some(other) => {
                                let v = variant_name(other);
                                self.fail(format!("C06:expr-kind:exp=unary:got={v}"), r_expr(m), v.clone());
                                None
                            }
                            None => None,
                        };
                        self.expr(x, inner, "unary-operand");
                    }
                }
            }
            Expr::Un(_, x) => {
                // `!` and `~` have no graph construct in this front end: operand walked model-only
                self.expr(x, None, "unary-operand");
            }
            Expr::Bin(op, l, r) if matches!(op, BinOp::Lt | BinOp::Le | BinOp::Gt | BinOp::Ge | BinOp::LogAnd | BinOp::LogOr) => {
                // ordering comparisons and logical operators have no graph construct in this
                // front end (diagnosed as not implemented): the node is not compared, the
                // operands are walked model-only so that the usage rules inside them still count
                for side in [l, r] {
                    if let Expr::Ident(n) = strip_paren(side) {
                        if Self::is_quantum(&self.decl_type(self.lookup(n))) {
                            self.expect_diag("IncompatibleTypesError");
                        }
                    }
                    if let Expr::Hw(_) = strip_paren(side) {
                        self.expect_diag("IncompatibleTypesError");
                    }
                }
                self.expr(l, None, "binary-left");
                self.expr(r, None, "binary-right");
            }
            Expr::Bin(op, l, r) => {
                let b = match ge {
                    Some(asg::Expr::BinaryExpr(b)) => Some(&**b),
                    Some(other) => {
                        let v = variant_name(other);
                        self.fail(format!("C06:expr-kind:exp=binary:got={v}"), r_expr(m), v.clone());
                        None
                    }
                    None => None,
                };
                if let Some(b) = b {
                    let want = asg_op_name(*op);
                    let gotop = format!("{:?}", b.op());
                    if want != gotop {
                        self.fail(format!("C06:operator:exp={}:got={gotop}", op.text()), want, gotop.clone());
                    }
                }
                // binary operators do not take quantum operands
                if !matches!(op, BinOp::Concat) {
                    for side in [l, r] {
                        if let Expr::Ident(n) = strip_paren(side) {
                            if Self::is_quantum(&self.decl_type(self.lookup(n))) {
                                self.expect_diag("IncompatibleTypesError");
                            }
                        }
                        if let Expr::Hw(_) = strip_paren(side) {
                            self.expect_diag("IncompatibleTypesError");
                        }
                    }
                }
                self.expr(l, b.map(|b| b.left()), "binary-left");
                self.expr(r, b.map(|b| b.right()), "binary-right");
            }
            Expr::Cast(t, x) => {
                let cast = match ge {
                    Some(asg::Expr::Cast(c)) => Some(&**c),
                    Some(other) => {
                        let v = variant_name(other);
                        self.fail(format!("C06:expr-kind:exp=cast:got={v}"), r_expr(m), v.clone());
                        None
                    }
                    None => None,
                };
                let rt = self.ref_type(t, true);
                if let (Some(c), Some(rt)) = (cast, &rt) {
                    if strip_const(c.get_type()) != strip_const(rt) {
                        let g = format!("{:?}", c.get_type());
                        self.fail(format!("C08:cast-type:{}", t.name()), format!("{rt:?}"), g);
                    }
                }
                self.expr(x, cast.map(|c| c.operand()), "cast-operand");
            }
            Expr::Call(f, args) => {
                let call = match ge {
                    Some(asg::Expr::SubroutineCall(c)) => Some(c),
                    Some(other) => {
                        let v = variant_name(other);
                        self.fail(format!("C06:expr-kind:exp=call:got={v}"), r_expr(m), v.clone());
                        None
                    }
                    None => None,
                };
                self.expr_list(args, call.map(|c| c.params().unwrap_or(&[])), "call-args");
                let d = self.use_name(f, call.map(|c| c.name()), "call-name", "UndefVarError");
                if let Some(Type::SubroutineDef(sd)) = self.decl_type(d) {
                    if sd.num_params != args.len() {
                        self.expect_diag("NumDefParamsError");
                    }
                }
            }
            Expr::IndexedId(n, ixs) => {
                let ii = match ge {
                    Some(asg::Expr::IndexedIdentifier(ii)) => Some(ii),
                    Some(other) => {
                        let v = variant_name(other);
                        self.fail(format!("C06:expr-kind:exp=indexed-identifier:got={v}"), r_expr(m), v.clone());
                        None
                    }
                    None => None,
                };
                self.indexed(n, ixs, ii, "indexed-expr");
            }
            Expr::Measure(o) => {
                let me = match ge {
                    Some(asg::Expr::MeasureExpression(me)) => Some(&**me),
                    Some(other) => {
                        let v = variant_name(other);
                        self.fail(format!("C06:expr-kind:exp=measure:got={v}"), r_expr(m), v.clone());
                        None
                    }
                    None => None,
                };
                self.operand(o, me.map(|m| m.operand()), "measure-operand");
            }
        }
        let _ = ctx;
    }

    /// A gate/measure/reset operand.
    fn operand(&mut self, o: &Operand, got: Option<&asg::TExpr>, role: &str) {
        let go = match got.map(|g| g.expression()) {
            Some(asg::Expr::GateOperand(g)) => Some(g),
            Some(other) => {
                let v = variant_name(other);
                self.fail(format!("C06:expr-kind:exp=gate-operand:got={v}"), r_operand(o), v.clone());
                None
            }
            None => None,
        };
        match o {
            Operand::Hw(n) => {
                if let Some(g) = go {
                    match g {
                        asg::GateOperand::HardwareQubit(h) if h.identifier() == n => {}
                        other => {
                            let v = format!("{other:?}");
                            self.fail("C06:operand-kind:exp=hardware-qubit".into(), n.clone(), v)
                        }
                    }
                }
            }
            Operand::Id(n) => {
                let sym = match go {
                    Some(asg::GateOperand::Identifier(s)) => Some(s),
                    Some(other) => {
                        let v = format!("{other:?}");
                        self.fail("C06:operand-kind:exp=identifier".into(), n.clone(), v);
                        None
                    }
                    None => None,
                };
                let d = self.use_name(n, sym, role, "UndefVarError");
                if let Some(d) = d {
                    if let Some(t) = &self.decls[d].ty {
                        if !matches!(t, Type::Qubit | Type::HardwareQubit | Type::QubitArray(_)) {
                            self.expect_diag("IncompatibleTypesError");
                        }
                    } else {
                        // type not judged (alias): neither expected nor forbidden
                        self.mark_unresolved();
                        self.n_missing -= 1;
                    }
                }
            }
            Operand::Indexed(n, ixs) => {
                let ii = match go {
                    Some(asg::GateOperand::IndexedIdentifier(ii)) => Some(ii),
                    Some(other) => {
                        let v = format!("{other:?}");
                        self.fail("C06:operand-kind:exp=indexed-identifier".into(), n.clone(), v);
                        None
                    }
                    None => None,
                };
                let d = self.indexed(n, ixs, ii, role);
                if let Some(d) = d {
                    match &self.decls[d].ty {
                        Some(Type::QubitArray(_)) => {}
                        Some(_) => self.expect_diag("IncompatibleTypesError"),
                        None => {
                            self.mark_unresolved();
                            self.n_missing -= 1;
                        }
                    }
                }
            }
        }
    }

    fn operands(&mut self, os: &[Operand], got: Option<&[asg::TExpr]>, role: &str) {
        if let Some(g) = got {
            if g.len() != os.len() {
                self.fail(format!("C06:list-length:{role}"), format!("{}", os.len()), format!("{}", g.len()));
            }
        }
        for (i, o) in os.iter().enumerate() {
            self.operand(o, got.and_then(|g| g.get(i)), role);
        }
    }

    fn modifiers(&mut self, ms: &[Modifier], got: Option<&[asg::GateModifier]>) {
        if let Some(g) = got {
            if g.len() != ms.len() {
                self.fail("C06:list-length:modifiers".into(), format!("{}", ms.len()), format!("{}", g.len()));
            }
        }
        for (i, m) in ms.iter().enumerate() {
            let a = got.and_then(|g| g.get(i));
            match (m, a) {
                (Modifier::Inv, Some(asg::GateModifier::Inv)) | (Modifier::Inv, None) => {}
                (Modifier::Pow(e), Some(asg::GateModifier::Pow(x))) => self.expr(e, Some(x), "pow-arg"),
                (Modifier::Pow(e), None) => self.expr(e, None, "pow-arg"),
                (Modifier::Ctrl(e), Some(asg::GateModifier::Ctrl(x))) | (Modifier::NegCtrl(e), Some(asg::GateModifier::NegCtrl(x))) => match (e, x) {
                    (Some(e), x) => self.expr(e, x.as_ref(), "ctrl-arg"),
                    (None, Some(x)) => {
                        let v = format!("{x:?}");
                        self.fail("C06:modifier:unexpected-argument".into(), "no argument".into(), v)
                    }
                    (None, None) => {}
                },
                (Modifier::Ctrl(e), None) | (Modifier::NegCtrl(e), None) => {
                    if let Some(e) = e {
                        self.expr(e, None, "ctrl-arg")
                    }
                }
                (m, Some(a)) => {
                    let v = format!("{a:?}");
                    self.fail("C06:modifier-kind".into(), format!("{m:?}"), v);
                    match m {
                        Modifier::Pow(e) => self.expr(e, None, "pow-arg"),
                        Modifier::Ctrl(Some(e)) | Modifier::NegCtrl(Some(e)) => self.expr(e, None, "ctrl-arg"),
                        _ => {}
                    }
                }
            }
        }
    }

    // ---------------- statements ----------------

    fn block(&mut self, ms: &[Stmt], got: Option<&[asg::Stmt]>, what: &str) {
        // model statements that produce no graph statement of their own
        let expected_n: usize = ms.iter().filter(|s| !matches!(s, Stmt::Empty | Stmt::Include(_) | Stmt::Version(_))).count();
        if let Some(g) = got {
            if g.len() != expected_n {
                self.fail(format!("C06:block-length:{what}"), format!("{expected_n} statements"), format!("{} statements", g.len()));
            }
        }
        let mut gi = 0usize;
        for m in ms {
            let emits = !matches!(m, Stmt::Empty | Stmt::Include(_) | Stmt::Version(_));
            let a = if emits { got.and_then(|g| g.get(gi)) } else { None };
            if emits {
                gi += 1;
            }
            self.stmt(m, a);
        }
    }

    fn body(&mut self, b: &Body, got: Option<&asg::Block>, what: &str) {
        match b {
            Body::Block(v) => self.block(v, got.map(|g| g.statements()), what),
            Body::Single(s) => {
                if let Some(g) = got {
                    if g.statements().len() != 1 {
                        self.fail(format!("C06:block-length:{what}"), "1 statement".into(), format!("{} statements", g.statements().len()));
                    }
                }
                self.stmt(s, got.and_then(|g| g.statements().first()));
            }
        }
    }

    fn kind_mismatch(&mut self, m: &Stmt, a: &asg::Stmt) {
        let v = variant_name(a);
        self.fail(format!("C06:stmt-kind:exp={}:got={v}", m.kind()), r_stmt(m), clip_dbg(a));
    }

    pub fn stmt(&mut self, m: &Stmt, got: Option<&asg::Stmt>) {
        let ord = self.ordinal;
        self.ordinal += 1;
        self.cur.push(ord);
        self.stmt_inner(m, got);
        self.cur.pop();
    }

    fn stmt_inner(&mut self, m: &Stmt, got: Option<&asg::Stmt>) {
        macro_rules! want {
            ($pat:pat => $val:expr) => {
                match got {
                    Some($pat) => Some($val),
                    Some(other) => {
                        self.kind_mismatch(m, other);
                        None
                    }
                    None => None,
                }
            };
        }
        match m {
            Stmt::Version(_) | Stmt::Empty => {}
            Stmt::Include(f) => {
                if f == "stdgates.inc" {
                    for (n, np, nq) in STD_GATES {
                        if self.scopes.last().unwrap().1.contains_key(*n) {
                            self.expect_diag("RedeclarationError");
                        } else {
                            self.bind_silent(n, Some(Type::Gate(*np, *nq)), "std-gate");
                        }
                    }
                    self.stdgates = true;
                }
            }
            Stmt::ClassicalDecl { konst, ty, name, init } => {
                let d = want!(asg::Stmt::DeclareClassical(d) => &**d);
                let rt = self.ref_type(ty, *konst);
                match (init, d.map(|d| d.initializer())) {
                    (Some(e), g) => self.expr(e, g.flatten(), "initializer"),
                    (None, Some(Some(x))) => {
                        let v = format!("{:?}", x.expression());
                        self.fail("C06:decl:unexpected-initializer".into(), "no initializer".into(), v)
                    }
                    _ => {}
                }
                let form = if *konst { "const-decl" } else { "classical-decl" };
                let id = self.declare(name, rt, form, d.map(|d| d.name()), "decl-name");
                if let (Some(id), true, Some(e)) = (id, *konst, init) {
                    self.decls[id].const_int = const_int_value(e);
                }
            }
            Stmt::QubitDecl { size, name } => {
                let d = want!(asg::Stmt::DeclareQuantum(d) => d);
                if self.scope_kind() != ScopeKind::Global {
                    self.expect_diag("NotInGlobalScopeError");
                }
                let rt = match size {
                    None => Some(Type::Qubit),
                    Some(e) => self.designator(e).map(|n| Type::QubitArray(ArrayDims::D1(n as usize))),
                };
                self.declare(name, rt, "qubit-decl", d.map(|d| d.name()), "decl-name");
            }
            Stmt::HwQubitDecl(n) => {
                let d = want!(asg::Stmt::DeclareHardwareQubit(d) => d);
                if self.scope_kind() != ScopeKind::Global {
                    self.expect_diag("NotInGlobalScopeError");
                }
                if let Some(d) = d {
                    if d.name().identifier() != n {
                        let v = d.name().identifier().to_string();
                        self.fail("C06:hw-qubit-name".into(), n.clone(), v);
                    }
                }
            }
            Stmt::IoDecl { input, ty, name } => {
                let rt = self.ref_type(ty, false);
                let sym = if *input {
                    want!(asg::Stmt::InputDeclaration(d) => d.name())
                } else {
                    want!(asg::Stmt::OutputDeclaration(d) => d.name())
                };
                self.declare(name, rt, "io-decl", sym, "decl-name");
            }
            Stmt::Alias { name, value } => {
                let a = want!(asg::Stmt::Alias(a) => &**a);
                self.expr(value, a.map(|a| a.rhs()), "alias-value");
                self.declare(name, None, "alias", a.map(|a| a.name()), "alias-name");
            }
            Stmt::Gate { name, params, qubits, body } => {
                let g = want!(asg::Stmt::GateDefinition(g) => g);
                if self.scope_kind() != ScopeKind::Global {
                    self.expect_diag("NotInGlobalScopeError");
                }
                self.enter(ScopeKind::Subroutine);
                if let Some(g) = g {
                    if g.params().is_some() != params.is_some() {
                        self.fail("C06:gate:param-list-presence".into(), format!("{}", params.is_some()), format!("{}", g.params().is_some()));
                    }
                    if let (Some(ps), Some(gp)) = (params, g.params()) {
                        if ps.len() != gp.len() {
                            self.fail("C06:list-length:gate-params".into(), format!("{}", ps.len()), format!("{}", gp.len()));
                        }
                    }
                    if g.qubits().len() != qubits.len() {
                        self.fail("C06:list-length:gate-qubits".into(), format!("{}", qubits.len()), format!("{}", g.qubits().len()));
                    }
                }
                if let Some(ps) = params {
                    for (i, p) in ps.iter().enumerate() {
                        let s = g.and_then(|g| g.params()).and_then(|gp| gp.get(i));
                        self.declare(p, Some(Type::Angle(None, IsConst::True)), "gate-param", s, "param");
                    }
                }
                for (i, q) in qubits.iter().enumerate() {
                    let s = g.and_then(|g| g.qubits().get(i));
                    self.declare(q, Some(Type::Qubit), "gate-qubit", s, "qubit-param");
                }
                self.block(body, g.map(|g| g.block().statements()), "gate-body");
                self.exit();
                let np = params.as_ref().map(|p| p.len()).unwrap_or(0);
                self.declare(name, Some(Type::Gate(np, qubits.len())), "gate", g.map(|g| g.name()), "gate-name");
            }
            Stmt::Def { name, params, ret, body } => {
                let d = want!(asg::Stmt::DefStmt(d) => d);
                if self.scope_kind() != ScopeKind::Global {
                    self.expect_diag("NotInGlobalScopeError");
                }
                self.enter(ScopeKind::Subroutine);
                if let Some(d) = d {
                    if d.params().len() != params.len() {
                        self.fail("C06:list-length:def-params".into(), format!("{}", params.len()), format!("{}", d.params().len()));
                    }
                }
                for (i, (t, n)) in params.iter().enumerate() {
                    let rt = match t {
                        ParamTy::Scalar(t) => self.ref_type(t, false),
                        ParamTy::Qubit(None) => Some(Type::Qubit),
                        ParamTy::Qubit(Some(e)) => self.designator(e).map(|n| Type::QubitArray(ArrayDims::D1(n as usize))),
                    };
                    let s = d.and_then(|d| d.params().get(i));
                    self.declare(n, rt, "def-param", s, "param");
                }
                self.block(body, d.map(|d| d.block().statements()), "def-body");
                self.exit();
                let rty = match ret {
                    None => Some(Type::Void),
                    Some(t) => self.ref_type(t, true),
                };
                if let (Some(d), Some(rt)) = (d, &rty) {
                    if strip_const(d.return_type()) != strip_const(rt) {
                        let g = format!("{:?}", d.return_type());
                        self.fail("C09:def-return-type".into(), format!("{rt:?}"), g);
                    }
                }
                let ty = rty.map(|r| Type::SubroutineDef(SubroutineDef { num_params: params.len(), return_type: Box::new(r) }));
                self.declare(name, ty, "def", d.map(|d| d.name()), "def-name");
            }
            Stmt::GateCall { mods, name, args, operands } => {
                let g = want!(asg::Stmt::GateCall(g) => g);
                self.modifiers(mods, g.map(|g| g.modifiers()));
                self.operands(operands, g.map(|g| g.qubits()), "gate-operand");
                if let Some(g) = g {
                    if g.params().is_some() != args.is_some() {
                        self.fail("C06:gate-call:argument-list-presence".into(), format!("{}", args.is_some()), format!("{}", g.params().is_some()));
                    }
                }
                if let Some(a) = args {
                    self.expr_list(a, g.map(|g| g.params().unwrap_or(&[])), "gate-args");
                }
                let d = self.use_name(name, g.map(|g| g.name()), "gate-name", "UndefGateError");
                let controlled = mods.iter().any(|m| matches!(m, Modifier::Ctrl(_) | Modifier::NegCtrl(_)));
                if controlled {
                    let ord = *self.cur.last().unwrap();
                    self.arity_unjudged.push(ord);
                }
                if let Some(d) = d {
                    match self.decls[d].ty.clone() {
                        Some(Type::Gate(np, nq)) => {
                            let given = args.as_ref().map(|a| a.len()).unwrap_or(0);
                            if np != given {
                                self.expect_diag("NumGateParamsError");
                            }
                            if nq != operands.len() {
                                self.expect_diag("NumGateQubitsError");
                            }
                        }
                        Some(_) => self.expect_diag("IncompatibleTypesError"),
                        None => {
                            self.mark_unresolved();
                            self.n_missing -= 1;
                        }
                    }
                }
            }
            Stmt::GPhase { mods, arg, operands } => {
                let _ = operands;
                if mods.is_empty() {
                    let g = want!(asg::Stmt::GPhaseCall(g) => g);
                    self.expr(arg, g.map(|g| g.arg()), "gphase-arg");
                } else {
                    let g = want!(asg::Stmt::ModifiedGPhaseCall(g) => g);
                    self.modifiers(mods, g.map(|g| g.modifiers()));
                    self.expr(arg, g.map(|g| g.arg()), "gphase-arg");
                }
            }
            Stmt::MeasureStmt(o) => {
                let e = want!(asg::Stmt::ExprStmt(e) => e);
                self.expr(&Expr::Measure(o.clone()), e, "measure-stmt");
            }
            Stmt::Reset(o) => {
                let r = want!(asg::Stmt::Reset(r) => r);
                self.operand(o, r.map(|r| r.gate_operand()), "reset-operand");
            }
            Stmt::Barrier(os) => {
                let b = want!(asg::Stmt::Barrier(b) => b);
                self.operands(os, b.map(|b| b.qubits().unwrap_or(&[])), "barrier-operand");
            }
            Stmt::Delay(e, os) => {
                let d = want!(asg::Stmt::Delay(d) => d);
                self.operands(os, d.map(|d| d.qubits()), "delay-operand");
                self.expr(e, d.map(|d| d.duration()), "delay-duration");
                match self.coarse_type(e) {
                    Some(Type::Duration(_)) => {}
                    Some(_) => self.expect_diag("IncompatibleTypesError"),
                    None => {
                        self.mark_unresolved();
                        self.n_missing -= 1;
                    }
                }
            }
            Stmt::If { cond, then, els } => {
                let i = want!(asg::Stmt::If(i) => i);
                self.expr(cond, i.map(|i| i.condition()), "if-condition");
                self.enter(ScopeKind::Local);
                self.body(then, i.map(|i| i.then_branch()), "then-branch");
                self.exit();
                match (els, i.map(|i| i.else_branch())) {
                    (Some(e), g) => {
                        if let Some(None) = g {
                            self.fail("C06:if:else-branch-missing".into(), "else branch".into(), "None".into());
                        }
                        self.enter(ScopeKind::Local);
                        self.body(e, g.flatten(), "else-branch");
                        self.exit();
                    }
                    (None, Some(Some(b))) => {
                        let v = format!("{} statements", b.statements().len());
                        self.fail("C06:if:unexpected-else-branch".into(), "no else branch".into(), v)
                    }
                    _ => {}
                }
            }
            Stmt::While { cond, body } => {
                let w = want!(asg::Stmt::While(w) => w);
                self.expr(cond, w.map(|w| w.condition()), "while-condition");
                self.enter(ScopeKind::Local);
                self.body(body, w.map(|w| w.loop_body()), "while-body");
                self.exit();
            }
            Stmt::For { ty, var, iter, body } => {
                let f = want!(asg::Stmt::ForStmt(f) => f);
                let rt = self.ref_type(ty, false);
                match iter {
                    ForIter::Range(s, st, e) => {
                        let r = match f.map(|f| f.iterable()) {
                            Some(asg::ForIterable::RangeExpression(r)) => Some(r),
                            Some(other) => {
                                let v = format!("{other:?}");
                                self.fail("C06:for:iterable-kind:exp=range".into(), "range".into(), clip(&v));
                                None
                            }
                            None => None,
                        };
                        self.range(s, st.as_ref(), e, r);
                    }
                    ForIter::Set(es) => {
                        let s = match f.map(|f| f.iterable()) {
                            Some(asg::ForIterable::SetExpression(s)) => Some(s.expressions()),
                            Some(other) => {
                                let v = format!("{other:?}");
                                self.fail("C06:for:iterable-kind:exp=set".into(), "set".into(), clip(&v));
                                None
                            }
                            None => None,
                        };
                        self.expr_list(es, s, "for-set");
                    }
                    ForIter::Expr(e) => {
                        let x = match f.map(|f| f.iterable()) {
                            Some(asg::ForIterable::Expr(x)) => Some(x),
                            Some(other) => {
                                let v = format!("{other:?}");
                                self.fail("C06:for:iterable-kind:exp=expr".into(), "expression".into(), clip(&v));
                                None
                            }
                            None => None,
                        };
                        self.expr(e, x, "for-iterable");
                    }
                }
                self.enter(ScopeKind::Local);
                self.declare(var, rt, "loop-var", f.map(|f| f.loop_var()), "loop-var");
                self.body(body, f.map(|f| f.loop_body()), "for-body");
                self.exit();
            }
            Stmt::Switch { control, cases, default } => {
                let s = want!(asg::Stmt::SwitchCaseStmt(s) => s);
                self.expr(control, s.map(|s| s.control()), "switch-control");
                if let Some(s) = s {
                    if s.cases().len() != cases.len() {
                        self.fail("C06:list-length:switch-cases".into(), format!("{}", cases.len()), format!("{}", s.cases().len()));
                    }
                }
                for (i, (vals, body)) in cases.iter().enumerate() {
                    let cgot = s.and_then(|s| s.cases().get(i));
                    self.expr_list(vals, cgot.map(|c| c.control_values()), "case-values");
                    self.enter(ScopeKind::Local);
                    self.block(body, cgot.map(|c| c.statements()), "case-body");
                    self.exit();
                }
                match (default, s.map(|s| s.default_block())) {
                    (Some(d), g) => {
                        if let Some(None) = g {
                            self.fail("C06:switch:default-missing".into(), "default block".into(), "None".into());
                        }
                        self.enter(ScopeKind::Local);
                        self.block(d, g.flatten(), "default-body");
                        self.exit();
                    }
                    (None, Some(Some(b))) => {
                        let v = format!("{} statements", b.len());
                        self.fail("C06:switch:unexpected-default".into(), "no default".into(), v)
                    }
                    _ => {}
                }
            }
            Stmt::Break => {
                let _ = want!(asg::Stmt::Break => ());
            }
            Stmt::Continue => {
                let _ = want!(asg::Stmt::Continue => ());
            }
            Stmt::End => {
                let _ = want!(asg::Stmt::End => ());
            }
            Stmt::Return(e) => {
                let x = want!(asg::Stmt::ExprStmt(e) => e);
                let r = match x.map(|x| x.expression()) {
                    Some(asg::Expr::Return(r)) => Some(&**r),
                    Some(other) => {
                        let v = variant_name(other);
                        self.fail(format!("C06:expr-kind:exp=return:got={v}"), r_stmt(m), v.clone());
                        None
                    }
                    None => None,
                };
                match (e, r.map(|r| r.value())) {
                    (Some(e), g) => self.expr(e, g.flatten(), "return-value"),
                    (None, Some(Some(v))) => {
                        let s = format!("{:?}", v.expression());
                        self.fail("C06:return:unexpected-value".into(), "no value".into(), s)
                    }
                    _ => {}
                }
                if self.scope_kind() == ScopeKind::Global {
                    self.expect_diag("ReturnInGlobalScopeError");
                }
            }
            Stmt::Assign { target, op, value } => {
                if let AssignOp::Compound(_) = op {
                    // compound assignment has no graph construct: walked model-only
                    match target {
                        LValue::Id(n) => {
                            self.use_name(n, None, "lvalue", "UndefVarError");
                        }
                        LValue::Indexed(n, ixs) => {
                            self.indexed(n, ixs, None, "lvalue");
                        }
                    }
                    self.expr(value, None, "assign-value");
                    return;
                }
                let a = want!(asg::Stmt::Assignment(a) => a);
                if matches!(strip_paren(value), Expr::IndexedId(..)) {
                    // indexed values have no settled type in this front end: whether the
                    // assignment is then reported as ill-typed is not a usage rule (not judged)
                    let ord = *self.cur.last().unwrap_or(&0);
                    self.has_unresolved.push(ord);
                }
                match target {
                    LValue::Id(n) => {
                        self.expr(value, a.map(|a| a.rvalue()), "assign-value");
                        let sym = match a.map(|a| a.lvalue()) {
                            Some(asg::LValue::Identifier(s)) => Some(s),
                            Some(other) => {
                                let v = format!("{other:?}");
                                self.fail("C06:lvalue-kind:exp=identifier".into(), n.clone(), clip(&v));
                                None
                            }
                            None => None,
                        };
                        let d = self.use_name(n, sym, "lvalue", "UndefVarError");
                        if let Some(d) = d {
                            if let Some(t) = &self.decls[d].ty.clone() {
                                if t.is_const() {
                                    self.expect_diag("MutateConstError");
                                }
                                // a float literal never goes into an int/uint/bool/duration
                                // target, a boolean literal never into a float target
                                let never = match (t, strip_paren(value)) {
                                    (Type::Int(..) | Type::UInt(..) | Type::Bool(_) | Type::Duration(_), Expr::Float(_)) => true,
                                    (Type::Float(..), Expr::Bool(_)) => true,
                                    _ => false,
                                };
                                if never {
                                    self.expect_diag("IncompatibleTypesError");
                                }
                            }
                        }
                    }
                    LValue::Indexed(n, ixs) => {
                        let ii = match a.map(|a| a.lvalue()) {
                            Some(asg::LValue::IndexedIdentifier(ii)) => Some(ii),
                            Some(other) => {
                                let v = format!("{other:?}");
                                self.fail("C06:lvalue-kind:exp=indexed-identifier".into(), n.clone(), clip(&v));
                                None
                            }
                            None => None,
                        };
                        self.indexed(n, ixs, ii, "lvalue");
                        self.expr(value, a.map(|a| a.rvalue()), "assign-value");
                    }
                }
            }
            Stmt::ExprStmt(e) => {
                let x = want!(asg::Stmt::ExprStmt(e) => e);
                self.expr(e, x, "expr-stmt");
            }
            Stmt::Pragma(t) => {
                let p = want!(asg::Stmt::Pragma(p) => p);
                if let Some(p) = p {
                    let want = t.strip_prefix("#pragma").or(t.strip_prefix("pragma")).unwrap_or(t);
                    if p.pragma_text() != want {
                        let v = p.pragma_text().to_string();
                        self.fail("C06:pragma-text".into(), want.to_string(), v);
                    }
                }
            }
            Stmt::Annotated(anns, inner) => {
                let a = want!(asg::Stmt::AnnotatedStmt(a) => &**a);
                if let Some(a) = a {
                    let got: Vec<&str> = a.annotations().iter().map(|x| x.annotation_text()).collect();
                    let want: Vec<&str> = anns.iter().map(|s| s.as_str()).collect();
                    if got != want {
                        self.fail("C06:annotation-text".into(), format!("{want:?}"), format!("{got:?}"));
                    }
                }
                self.stmt(inner, a.map(|a| a.statement()));
            }
            Stmt::Block(v) | Stmt::Box(v) => {
                // outside the supported subset: not compared (ordinals of nested statements are
                // still consumed so that diagnostics stay attributable)
                self.skip(v);
            }
            Stmt::ArrayDecl { .. } | Stmt::IoArrayDecl { .. } | Stmt::OldDecl { .. } | Stmt::Extern { .. } | Stmt::Cal(_) | Stmt::DefCalGrammar(_) => {}
        }
    }

    fn skip(&mut self, v: &[Stmt]) {
        for s in v {
            self.ordinal += 1;
            match s {
                Stmt::Block(b) | Stmt::Box(b) => self.skip(b),
                Stmt::Gate { body, .. } | Stmt::Def { body, .. } => self.skip(body),
                Stmt::If { then, els, .. } => {
                    self.skip_body(then);
                    if let Some(e) = els {
                        self.skip_body(e);
                    }
                }
                Stmt::While { body, .. } | Stmt::For { body, .. } => self.skip_body(body),
                Stmt::Switch { cases, default, .. } => {
                    for (_, b) in cases {
                        self.skip(b);
                    }
                    if let Some(d) = default {
                        self.skip(d);
                    }
                }
                Stmt::Annotated(_, inner) => self.skip(std::slice::from_ref(inner)),
                _ => {}
            }
        }
    }

    fn skip_body(&mut self, b: &Body) {
        match b {
            Body::Block(v) => self.skip(v),
            Body::Single(s) => self.skip(std::slice::from_ref(s)),
        }
    }

    pub fn program(&mut self, prog: &[Stmt], got: &asg::Program) {
        self.block(prog, Some(got.stmts()), "program");
        if self.scopes.len() != 1 {
            self.fails.push(Failure::new("HARNESS:semcheck-scope-imbalance", json!({})));
        }
    }
}

fn unit_matches(model: &str, asg_dbg: &str) -> bool {
    matches!(
        (model, asg_dbg),
        ("ns", "NanoSecond") | ("us", "MicroSecond") | ("µs", "MicroSecond") | ("ms", "MilliSecond") | ("s", "Second") | ("dt", "Cycle")
    )
}

pub fn strip_paren(e: &Expr) -> &Expr {
    let mut e = e;
    while let Expr::Paren(x) = e {
        e = x;
    }
    e
}

fn strip_paren_once(e: &Expr) -> &Expr {
    e
}

/// The value of a const integer initializer (`3`, `-3`, `(3)`).
pub fn const_int_value(e: &Expr) -> Option<i128> {
    match strip_paren(e) {
        Expr::Int(s) => int_value(s).and_then(|v| i128::try_from(v).ok()),
        Expr::Un(UnOp::Neg, x) => match &**x {
            Expr::Int(s) => int_value(s).and_then(|v| i128::try_from(v).ok()).map(|v| -v),
            _ => None,
        },
        _ => None,
    }
}

pub fn asg_op_name(op: BinOp) -> String {
    use BinOp::*;
    match op {
        Add => "ArithOp(Add)",
        Sub => "ArithOp(Sub)",
        Mul => "ArithOp(Mul)",
        Div => "ArithOp(Div)",
        Rem => "ArithOp(Rem)",
        Shl => "ArithOp(Shl)",
        Shr => "ArithOp(Shr)",
        BitXor => "ArithOp(BitXOr)",
        BitOr => "ArithOp(BitOr)",
        BitAnd => "ArithOp(BitAnd)",
        Eq => "CmpOp(Eq)",
        Neq => "CmpOp(Neq)",
        Pow => "PowerOp",
        Concat => "ConcatenationOp",
        // no graph construct exists for these
        Lt => "CmpOp(Lt)",
        Le => "CmpOp(Le)",
        Gt => "CmpOp(Gt)",
        Ge => "CmpOp(Ge)",
        LogAnd => "LogicOp(And)",
        LogOr => "LogicOp(Or)",
    }
    .to_string()
}

pub fn variant_name<T: std::fmt::Debug>(x: &T) -> String {
    let s = format!("{x:?}");
    s.split(|c: char| c == '(' || c == ' ' || c == '{').next().unwrap_or("?").to_string()
}

fn clip(s: &str) -> String {
    crate::engine::clip(s, 200)
}

fn clip_dbg<T: std::fmt::Debug>(x: &T) -> String {
    clip(&format!("{x:?}"))
}
