// lex: ok
// parse: ok
// sema: todo

// beware the tab character in f = 1 im below
  complex[float] a;
  complex[float] b = 4 - 5.5im;
  complex[float[64]] d = a + 3 im;
//  complex[float[32]] c = a ** b;
  complex[float] e = 1im;
  complex[float] f = 1	im;
  complex z;
