// lex: ok
// parse: ok
// sema: todo

OPENQASM 3.0;
// Line comment before include
include "stdgates.inc"; // Inline comment
/* Block comment before declaration */
qubit[2] q; /* Inline block comment */

// Comment before gate
h q[0]; // Gate with comment
/* Multi-line block comment
   spanning multiple lines */
cx q[0], q[1];
