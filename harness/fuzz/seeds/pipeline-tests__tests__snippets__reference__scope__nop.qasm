// lex: ok
// parse: todo
// sema: skip

nop;
nop $0;
nop $1, $2;
nop q, q[0],;
box {
  nop $0;
}
gate x q {
  nop q;
}
