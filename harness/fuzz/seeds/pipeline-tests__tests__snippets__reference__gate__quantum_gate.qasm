// lex: ok
// parse: ok
// sema: panic

include "stdlib.qasm";

gate test_gate(theta) a, b {
  reset a;
  barrier b;
  gphase(-theta/2);
  CX a, b;
  barrier;
}
