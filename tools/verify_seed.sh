#!/bin/bash
# Developer tool: confirm a sub-agent's seeded change in its scratch worktree /tmp/seed/<ID>
# (patch applies to the pristine tree, suite passes with it, demo fails with it and passes
# without it), then copy it to /verif/seeded/<ID>[suffix]/.
# usage: verify_seed.sh <worktree-dir> <ID> [suffix]
set -u
W="$1"; ID="$2"; SUF="${3:-}"
cd "$W" || exit 2
[ -f SEED_patch.diff ] && [ -f SEED_demo.rs ] && [ -f SEED_meta.json ] || { echo "missing SEED files"; exit 2; }
cp SEED_patch.diff /tmp/seed_patch_$ID.diff; cp SEED_demo.rs /tmp/seed_demo_$ID.rs; cp SEED_meta.json /tmp/seed_meta_$ID.json
DEMO=$(python3 -c "import json;print(json.load(open('/tmp/seed_meta_$ID.json'))['demo_location'])")
git checkout -q -- . ; git clean -fdq -e target -e 'SEED_*' crates >/dev/null 2>&1
mkdir -p "$(dirname "$DEMO")"; cp /tmp/seed_demo_$ID.rs "$DEMO"
TNAME=$(basename "$DEMO" .rs); PKG=$(echo "$DEMO" | cut -d/ -f2)
r_without=$(cargo test -p "$PKG" --test "$TNAME" --offline 2>&1 | grep -E "^test result" | tail -1)
git apply /tmp/seed_patch_$ID.diff || { echo "patch does not apply"; exit 1; }
r_with=$(cargo test -p "$PKG" --test "$TNAME" --offline 2>&1 | grep -E "^test result" | tail -1)
rm -f "$DEMO"
suite=$(cargo test --workspace --no-fail-fast --offline 2>&1 | grep -E "^test result" | awk '{p+=$4; f+=$6} END {print p" passed, "f" failed"}')
echo "demo without change: $r_without"
echo "demo with change:    $r_with"
echo "suite with change:   $suite"
D=/verif/seeded/$ID$SUF; mkdir -p "$D"
cp /tmp/seed_patch_$ID.diff "$D/patch.diff"; cp /tmp/seed_demo_$ID.rs "$D/demo.rs"
python3 - "$D" "$ID" "$r_without" "$r_with" "$suite" <<'PY'
import json,sys
d,i,a,b,c=sys.argv[1:6]
m=json.load(open(f'/tmp/seed_meta_{i}.json'))
m['confirmed']={'demo_without_change':a,'demo_with_change':b,'suite_with_change':c,'confirmed_in':'scratch worktree under /tmp/seed (removed afterwards)'}
json.dump(m,open(d+'/meta.json','w'),indent=1)
PY
git checkout -q -- .
