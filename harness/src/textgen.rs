//! Text-level generators: token alphabet A (G-tok), G-chars, bounded-exhaustive alphabets,
//! snippet mutation, deep-nesting probes (DESIGN.md §4.1, §4.3).

use crate::engine::Src;

/// Alphabet A: one spelling per non-trivia kind the lexer can emit, plus the joint composite
/// operators the parser glues. `line` = the lexeme runs to end of line.
pub struct Tok {
    pub text: &'static str,
    pub line: bool,
}

const fn t(text: &'static str) -> Tok {
    Tok { text, line: false }
}
const fn l(text: &'static str) -> Tok {
    Tok { text, line: true }
}

pub static ALPHABET: &[Tok] = &[
    // single-character punctuation (28)
    t(";"), t(","), t("."), t("("), t(")"), t("{"), t("}"), t("["), t("]"), t("@"), t("#"), t("~"),
    t("?"), t(":"), t("$"), t("="), t("!"), t("<"), t(">"), t("-"), t("&"), t("|"), t("+"), t("*"),
    t("/"), t("^"), t("%"), t("_"),
    // keywords (45)
    t("OPENQASM"), t("barrier"), t("box"), t("cal"), t("const"), t("def"), t("defcal"),
    t("defcalgrammar"), t("delay"), t("extern"), t("gate"), t("gphase"), t("include"), t("let"),
    t("measure"), t("pragma"), t("dim"), t("reset"), t("break"), t("case"), t("continue"),
    t("default"), t("else"), t("end"), t("for"), t("if"), t("in"), t("return"), t("switch"),
    t("while"), t("array"), t("creg"), t("input"), t("mutable"), t("output"), t("qreg"),
    t("qubit"), t("readonly"), t("void"), t("ctrl"), t("inv"), t("negctrl"), t("pow"), t("false"),
    t("true"),
    // types (9)
    t("angle"), t("bit"), t("bool"), t("complex"), t("duration"), t("float"), t("int"),
    t("stretch"), t("uint"),
    // literals, identifiers
    t("3"), t("2.5"), t("\"0101\""), t("\"str\""), t("x"), t("ns"), t("im"), t("$0"),
    // line lexemes, version header, dim, error character
    l("pragma foo bar"), l("@annot a b"), t("OPENQASM 3.0"), t("#dim"), t("№"),
    // joint composite operators (26)
    t("->"), t("=="), t("**"), t("<<="), t(">>="), t("-="), t("::"), t("!="), t(".."), t("*="),
    t("/="), t("&&"), t("&="), t("%="), t("^="), t("+="), t("++"), t("<<"), t("<="), t("=>"),
    t(">="), t(">>"), t("|="), t("||"), t("..."), t("..="),
];

/// Indices (into ALPHABET) biased towards statement openers and brackets for random soup.
pub fn soup_token(src: &mut Src) -> usize {
    const HOT: &[&str] = &[
        "(", ")", "{", "}", "[", "]", ";", ",", "x", "3", "=", "def", "gate", "if", "else", "for", "in",
        "while", "switch", "case", "default", "int", "qubit", "const", "let", "measure", "delay",
        "extern", "defcal", "cal", "box", "return", "array", "->", "@", "ctrl", "inv", "pow", "gphase",
        "2.5", "ns", "$0", "reset", "barrier", "include", "input", "creg", "qreg", "-", "+", "*", "~", "!",
        ":", "bit", "float", "complex", "OPENQASM 3.0", "\"0101\"", "\"str\"",
    ];
    if src.chance(3, 5) {
        let s = HOT[src.below(HOT.len())];
        ALPHABET.iter().position(|t| t.text == s).unwrap_or(0)
    } else {
        src.below(ALPHABET.len())
    }
}

pub fn join_tokens(idx: &[usize], out: &mut String) {
    out.clear();
    for (k, i) in idx.iter().enumerate() {
        let tok = &ALPHABET[*i];
        if k > 0 {
            out.push(' ');
        }
        out.push_str(tok.text);
        if tok.line {
            out.push('\n');
        }
    }
}

// ---------------- G-chars ----------------

pub static CHAR_POOL: &[char] = &[
    ';', ',', '.', '(', ')', '{', '}', '[', ']', '@', '#', '~', '?', ':', '$', '=', '!', '<', '>', '-', '&',
    '|', '+', '*', '/', '^', '%', '_', '"', '\'', '\\', '0', '1', '2', '7', '9', 'e', 'E', 'x', 'b', 'o',
    'p', 'O', 's', 'a', 'd', 'i', 'm', 'n', 't', 'u', 'q', 'r', 'g', 'X', 'B', ' ', ' ', ' ', '\t', '\r',
    '\n', '\n', '\u{85}', '\u{2028}', '\0', 'µ', 'é', 'π', 'ℇ', '中', '😀', '𝛑', '\u{200d}', 'τ', '№', '\u{feff}', '\u{200b}', '\u{a0}', '\u{b}', '\u{c}',
];

pub static FRAGMENTS: &[&str] = &[
    "OPENQASM 3.0;", "OPENQASM 3", "OPENQASM", "pragma ", "#pragma ", "pragma", "#dim", "#dim=", "0x", "0b",
    "0o", "1e", "1.5e+", "/*", "*/", "//", "ns", "us", "µs", "ms", "dt", "im", "qubit", "int[32]", "gate",
    "def", "include \"stdgates.inc\";", "include", "measure", "reset", "barrier", "delay[", "for", "in",
    "while", "if", "else", "switch", "case", "default", "const", "let", "input", "output", "array[",
    "complex[float[64]]", "bit[2]", "\"0101\"", "'01_1'", "->", "==", "**", "<<=", "++", "@", "ctrl @", "inv @",
    "pow(2) @", "gphase(", "return", "break;", "continue;", "end;", "extern", "defcal", "cal {", "box",
    "true", "false", "$0", "_", "x", "q[0]", "3", "2.5", "1_000", "0xFF", "0b1_0", ".5", "5.", "duration",
    "stretch", "angle", "float", "uint", "bool", "creg c[2];", "qreg q[2];", "readonly", "mutable", "void",
];

pub fn gen_chars(src: &mut Src, max_items: usize) -> String {
    let n = src.below(max_items + 1);
    let mut s = String::new();
    for _ in 0..n {
        if src.chance(2, 5) {
            s.push_str(FRAGMENTS[src.below(FRAGMENTS.len())]);
            if src.bool() {
                s.push(' ');
            }
        } else {
            s.push(CHAR_POOL[src.below(CHAR_POOL.len())]);
        }
    }
    s
}

/// Put a special character in front of / behind a generated text now and then (byte order mark,
/// NUL, zero-width space, form feed, a lone carriage return …): whole-file edge positions.
/// Draws come after the text's own draws, so an exhausted source leaves the text unchanged.
pub fn decorate(src: &mut Src, text: String) -> String {
    const EDGE: &[&str] = &["\u{feff}", "\0", "\u{200b}", "\u{c}", "\r", "\u{feff}\u{feff}", "\u{a0}", "\u{2029}", "\\", "\u{1}"];
    let mut t = text;
    if src.chance(1, 10) {
        t = format!("{}{t}", EDGE[src.below(EDGE.len())]);
    }
    if src.chance(1, 16) {
        t.push_str(EDGE[src.below(EDGE.len())]);
    }
    t
}

/// Quoted literals made of escape sequences (valid, malformed, truncated) and multi-byte
/// characters, inside a small statement context: the inputs of literal validation.
pub fn gen_escape_text(src: &mut Src) -> String {
    const PIECES: &[&str] = &[
        "\\n", "\\t", "\\r", "\\\\", "\\\"", "\\'", "\\0", "\\x41", "\\x7F", "\\x80", "\\xFF", "\\xZZ", "\\x4", "\\x",
        "\\u{41}", "\\u{}", "\\u{D800}", "\\u{DFFF}", "\\u{10FFFF}", "\\u{110000}", "\\u{1234567}", "\\u{_1}", "\\u{1_0}",
        "\\u{zz}", "\\u{41", "\\u{", "\\u", "\\q", "\\u{100000000}", "\\u{FFFFFFFFFFFF}", "\\u{00000000000041}", "\\u{9999999999999999999}", "\\x4141414141", "\\é", "\\", "é", "€", "😀", "\u{feff}", "a", "0", "1", "_", " ", "\n", "\t",
        "{", "}", "/*", "//", "\r",
    ];
    let mut s = String::new();
    let n_lits = 1 + src.below(3);
    for _ in 0..n_lits {
        s.push_str(["", "x = ", "include ", "bit[4] b = ", "f(", "pragma ", "@a ", "é = ", "/*é*/ "][src.below(9)]);
        let q = ["\"", "'", "b'", "b\""][src.weighted(&[6, 3, 1, 1])];
        s.push_str(q);
        let n = src.below(7);
        for _ in 0..n {
            s.push_str(PIECES[src.below(PIECES.len())]);
        }
        // mostly terminated, sometimes with the other quote or not at all
        match src.below(8) {
            0 => {}
            1 => s.push_str(if q.ends_with('"') { "'" } else { "\"" }),
            _ => s.push(q.chars().last().unwrap()),
        }
        s.push_str([";", ";\n", ")", " ", "\n", ""][src.below(6)]);
    }
    s
}

pub static EXH_ALPHABETS: &[(&str, [&str; 14])] = &[
    ("numeric", ["0", "1", "x", "e", ".", "_", "+", "s", "µ", "b", "n", " ", "\"", "\n"]),
    ("quote", ["\"", "'", "\\", "/", "*", "\n", "_", "0", "1", "a", "é", "\0", " ", "#"]),
    ("prefix", ["p", "r", "a", "g", "m", "O", "#", "$", "@", "d", "i", " ", "\n", "1"]),
    ("escape", ["\"", "\\", "u", "x", "{", "}", "_", "0", "8", "\u{feff}", "F", "é", "'", "n"]),
];

/// Write the `idx`-th string of length `len` over `alpha` into `out`.
pub fn exh_string(alpha: &[&str; 14], len: usize, mut idx: u64, out: &mut String) {
    out.clear();
    for _ in 0..len {
        out.push_str(alpha[(idx % 14) as usize]);
        idx /= 14;
    }
}

// ---------------- snippet corpus and mutation ----------------

pub fn load_snippets() -> Vec<String> {
    let dir = crate::engine::verif_root().join("corpus").join("snippets");
    let mut names: Vec<_> = match std::fs::read_dir(&dir) {
        Ok(rd) => rd.filter_map(|e| e.ok()).map(|e| e.path()).collect(),
        Err(_) => vec![],
    };
    names.sort();
    let mut out = vec![];
    for p in names {
        if let Ok(s) = std::fs::read_to_string(&p) {
            out.push(s);
        }
    }
    out
}

/// Split text into coarse "tokens" (words, numbers, single punctuation, whitespace runs) so
/// that mutation does not depend on the lexer under test.
pub fn coarse_tokens(text: &str) -> Vec<&str> {
    let mut out = vec![];
    let mut it = text.char_indices().peekable();
    while let Some((i, c)) = it.next() {
        let class = |c: char| {
            if c.is_alphanumeric() || c == '_' {
                1
            } else if c.is_whitespace() {
                2
            } else {
                3
            }
        };
        let k = class(c);
        let mut end = i + c.len_utf8();
        if k != 3 {
            while let Some(&(j, d)) = it.peek() {
                if class(d) == k {
                    end = j + d.len_utf8();
                    it.next();
                } else {
                    break;
                }
            }
        }
        out.push(&text[i..end]);
    }
    out
}

pub fn mutate(src: &mut Src, text: &str) -> String {
    let toks = coarse_tokens(text);
    if toks.is_empty() {
        return String::new();
    }
    // take a window of the snippet to keep cases small
    let win = 8 + src.below(120);
    let start = src.below(toks.len());
    let end = (start + win).min(toks.len());
    let mut v: Vec<String> = toks[start..end].iter().map(|s| s.to_string()).collect();
    let n_mut = src.below(4);
    for _ in 0..n_mut {
        if v.is_empty() {
            break;
        }
        let i = src.below(v.len());
        match src.below(7) {
            0 => {
                v.remove(i);
            }
            1 => {
                let x = v[i].clone();
                v.insert(i, x);
            }
            2 => {
                let j = src.below(v.len());
                v.swap(i, j);
            }
            3 => {
                v.truncate(i);
            }
            4 => {
                let tok = ALPHABET[src.below(ALPHABET.len())].text.to_string();
                v.insert(i, format!(" {tok} "));
            }
            5 => {
                let b = ["(", ")", "{", "}", "[", "]"];
                v[i] = b[src.below(6)].to_string();
            }
            _ => {
                let c = CHAR_POOL[src.below(CHAR_POOL.len())];
                v[i] = c.to_string();
            }
        }
    }
    v.concat()
}

// ---------------- deep nesting probes ----------------

pub fn nesting_probes(depth: usize) -> Vec<(String, String)> {
    let mut v = vec![];
    let rep = |s: &str, n: usize| s.repeat(n);
    v.push(("paren".to_string(), format!("x = {}1{};", rep("(", depth), rep(")", depth))));
    v.push(("paren_open".to_string(), format!("x = {}1;", rep("(", depth))));
    v.push(("bracket".to_string(), format!("x = {}1{};", rep("[", depth), rep("]", depth))));
    v.push(("brace".to_string(), format!("{}x;{}", rep("{", depth), rep("}", depth))));
    v.push(("brace_open".to_string(), rep("{", depth)));
    v.push(("unary".to_string(), format!("x = {}1;", rep("-", depth))));
    v.push(("not".to_string(), format!("x = {}1;", rep("!", depth))));
    v.push(("index".to_string(), format!("x = a{};", rep("[0]", depth))));
    v.push(("call".to_string(), format!("x = {}1{};", rep("f(", depth), rep(")", depth))));
    v.push(("if_chain".to_string(), format!("{}x;", rep("if (c) ", depth))));
    v.push(("else_if_chain".to_string(), format!("{} x;", rep("if (c) y; else ", depth))));
    v.push(("while_chain".to_string(), format!("{}x;", rep("while (c) ", depth))));
    v.push(("for_chain".to_string(), format!("{}x;", rep("for int i in [0:1] ", depth))));
    v.push(("binop_right".to_string(), format!("x = {}1;", rep("1 ** ", depth))));
    v.push(("binop_left".to_string(), format!("int y = 1{};", rep(" + 1", depth))));
    v.push(("cast".to_string(), format!("x = {}1{};", rep("int(", depth), rep(")", depth))));
    v.push(("array_lit".to_string(), format!("array[int, 1] a = {}1{};", rep("{", depth), rep("}", depth))));
    v.push(("complex_ty".to_string(), format!("{}x", rep("complex[", depth))));
    v.push(("block_comment".to_string(), format!("{} x {}", rep("/*", depth), rep("*/", depth))));
    v.push(("modifiers".to_string(), format!("{}h q;", rep("ctrl @ ", depth))));
    v.push(("switch_nest".to_string(), format!("{}x;{}", rep("switch (a) { case 1 { ", depth), rep("} }", depth))));
    v.push(("gate_nest".to_string(), format!("{}x;{}", rep("gate g q { ", depth), rep("}", depth))));
    v.push(("def_nest".to_string(), format!("{}x;{}", rep("def f() { ", depth), rep("}", depth))));
    v
}
