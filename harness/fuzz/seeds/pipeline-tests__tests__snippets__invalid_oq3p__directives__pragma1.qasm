// lex: diag
// parse: skip
// sema: skip

// Invalid identifier token
#pragmaa 1 2 3
