#![no_main]
// bytes -> lossy UTF-8 -> C14, C01, C02, C12 (syntax side) and the lex gate of C11
mod common;
use libfuzzer_sys::fuzz_target;
use oq3_verif_harness::textprops::oracle_text;

fuzz_target!(|data: &[u8]| {
    common::init();
    let text = String::from_utf8_lossy(data);
    let mut fails = vec![];
    oracle_text(&text, &mut fails);
    common::judge(fails, &["C01:", "C02:", "C11:", "C12:", "C14:"]);
});
