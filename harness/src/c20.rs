//! C20 — type promotion is a join on the numeric tower and never narrows.

use crate::engine::*;
use oq3_semantics::asg::{implicit_cast_type, ArithOp};
use oq3_semantics::types::{self, ArrayDims, IsConst, SubroutineDef, Type};
use serde_json::json;

pub fn widths() -> Vec<Option<u32>> {
    vec![None, Some(1), Some(8), Some(32), Some(64), Some(128), Some(u32::MAX)]
}

pub fn all_types() -> Vec<Type> {
    let mut v = vec![];
    let consts = [IsConst::False, IsConst::True];
    for c in &consts {
        v.push(Type::Bit(c.clone()));
        v.push(Type::Bool(c.clone()));
        v.push(Type::Duration(c.clone()));
        v.push(Type::Stretch(c.clone()));
        for w in widths() {
            v.push(Type::Int(w, c.clone()));
            v.push(Type::UInt(w, c.clone()));
            v.push(Type::Float(w, c.clone()));
            v.push(Type::Angle(w, c.clone()));
            v.push(Type::Complex(w, c.clone()));
        }
        v.push(Type::BitArray(ArrayDims::D1(4), c.clone()));
        v.push(Type::BitArray(ArrayDims::D1(8), c.clone()));
        v.push(Type::BitArray(ArrayDims::D2(2, 3), c.clone()));
        v.push(Type::BitArray(ArrayDims::D3(2, 3, 4), c.clone()));
    }
    v.push(Type::Qubit);
    v.push(Type::HardwareQubit);
    let dims = [ArrayDims::D1(3), ArrayDims::D1(5), ArrayDims::D2(2, 2), ArrayDims::D3(1, 2, 3)];
    for d in &dims {
        v.push(Type::QubitArray(d.clone()));
        v.push(Type::IntArray(d.clone()));
    }
    let d = ArrayDims::D1(2);
    v.push(Type::UIntArray(d.clone()));
    v.push(Type::FloatArray(d.clone()));
    v.push(Type::AngleArray(d.clone()));
    v.push(Type::ComplexArray(d.clone()));
    v.push(Type::BoolArray(d.clone()));
    v.push(Type::DurationArray(d.clone()));
    v.push(Type::Gate(0, 1));
    v.push(Type::Gate(3, 1));
    v.push(Type::Gate(1, 2));
    v.push(Type::SubroutineDef(SubroutineDef { num_params: 0, return_type: Box::new(Type::Void) }));
    v.push(Type::SubroutineDef(SubroutineDef { num_params: 2, return_type: Box::new(Type::Int(Some(32), IsConst::False)) }));
    v.push(Type::Range);
    v.push(Type::Set);
    v.push(Type::Void);
    v.push(Type::ToDo);
    v.push(Type::Undefined);
    v
}

/// Position in the numeric tower: (level, kind) or None for types outside it.
fn tower(t: &Type) -> Option<(u8, u8)> {
    match t {
        Type::Int(..) => Some((0, 0)),
        Type::UInt(..) => Some((0, 1)),
        Type::Float(..) => Some((1, 2)),
        Type::Complex(..) => Some((2, 3)),
        _ => None,
    }
}

fn width_le(a: Option<u32>, b: Option<u32>) -> bool {
    match (a, b) {
        (_, None) => true,
        (None, Some(_)) => false,
        (Some(x), Some(y)) => x <= y,
    }
}

/// a <= b in the order of the statement (weakest reading: widths compared within a kind only).
fn le(a: &Type, b: &Type) -> bool {
    match (tower(a), tower(b)) {
        (Some((la, ka)), Some((lb, kb))) => {
            if ka == kb {
                width_le(a.width(), b.width())
            } else {
                la < lb
            }
        }
        _ => false,
    }
}

fn strip_const(t: &Type) -> Type {
    use Type::*;
    let f = IsConst::False;
    match t {
        Bit(_) => Bit(f),
        Int(w, _) => Int(*w, f),
        UInt(w, _) => UInt(*w, f),
        Float(w, _) => Float(*w, f),
        Angle(w, _) => Angle(*w, f),
        Complex(w, _) => Complex(*w, f),
        Bool(_) => Bool(f),
        Duration(_) => Duration(f),
        Stretch(_) => Stretch(f),
        BitArray(d, _) => BitArray(d.clone(), f),
        other => other.clone(),
    }
}

fn eq_mod_const(a: &Type, b: &Type) -> bool {
    strip_const(a) == strip_const(b)
}

/// The const flag as stored in the type (read by pattern, not through `Type::is_const`).
fn stored_const(t: &Type) -> Option<bool> {
    use Type::*;
    match t {
        Bit(c) | Int(_, c) | UInt(_, c) | Float(_, c) | Angle(_, c) | Complex(_, c) | Bool(c) | Duration(c) | Stretch(c) | BitArray(_, c) => Some(matches!(c, IsConst::True)),
        _ => None,
    }
}

/// const-ness with the stored flag where there is one
fn konst(t: &Type) -> bool {
    stored_const(t).unwrap_or_else(|| t.is_const())
}

/// Does the pair have an upper bound in the order? (the tower has a top kind, complex, and a top
/// width, none; so any two tower types have one.)
fn has_bound(a: &Type, b: &Type) -> bool {
    tower(a).is_some() && tower(b).is_some()
}

fn kind_name(t: &Type) -> String {
    format!("{:?}", t.base_type())
}

fn wclass(t: &Type) -> &'static str {
    match t.width() {
        None => "none",
        Some(_) => "w",
    }
}

fn pair_class(a: &Type, b: &Type) -> String {
    let wc = match (a.width(), b.width()) {
        (None, None) => "none/none",
        (None, Some(_)) => "none/w",
        (Some(_), None) => "w/none",
        (Some(x), Some(y)) if x == y => "w=w",
        (Some(x), Some(y)) if x < y => "w<w",
        _ => "w>w",
    };
    format!("{},{}:{}", kind_name(a), kind_name(b), wc)
}

fn fail(rule: &str, a: &Type, b: &Type, actual: String, class_key: bool) -> Failure {
    let key = if class_key { format!("C20:{rule}:{}", pair_class(a, b)) } else { format!("C20:{rule}:{},{}", kind_name(a), kind_name(b)) };
    Failure::new(key, json!({"input": {"types": [format!("{a:?}"), format!("{b:?}")]}, "actual": actual}))
}

pub fn check_pair(a: &Type, b: &Type, out: &mut Vec<Failure>) {
    let _ = wclass(a);
    for (fname, p) in [
        ("promote_types", types::promote_types(a, b)),
        ("promote_types_not_equal", types::promote_types_not_equal(a, b)),
    ] {
        if fname == "promote_types_not_equal" && a == b {
            continue;
        }
        let q = if fname == "promote_types" { types::promote_types(b, a) } else { types::promote_types_not_equal(b, a) };
        // symmetric up to const-ness
        if !eq_mod_const(&p, &q) {
            out.push(fail(&format!("{fname}:asymmetric"), a, b, format!("{p:?} vs {q:?}"), true));
        }
        // the accessor agrees with the stored flag
        if let Some(f) = stored_const(a) {
            if a.is_const() != f && fname == "promote_types" {
                out.push(fail("is_const:disagrees-with-the-stored-flag", a, a, format!("{}", a.is_const()), true));
            }
        }
        // reflexive
        if a == b && fname == "promote_types" && &p != a {
            out.push(fail("promote_types:not-reflexive", a, b, format!("{p:?}"), true));
        }
        let in_tower = has_bound(a, b);
        if p != Type::Void {
            if in_tower {
                if !(le(a, &p) && le(b, &p)) {
                    out.push(fail(&format!("{fname}:not-upper-bound"), a, b, format!("{p:?}"), true));
                }
                if konst(&p) && !(konst(a) && konst(b)) {
                    out.push(fail(&format!("{fname}:const-result-from-non-const-operand"), a, b, format!("{p:?}"), true));
                }
            } else {
                // outside the tower: only "never narrower than an argument": the result must be
                // one of the arguments up to const-ness (the only bound an unordered pair can have)
                if !(eq_mod_const(&p, a) && eq_mod_const(&p, b)) {
                    out.push(fail(&format!("{fname}:common-type-for-unordered-pair"), a, b, format!("{p:?}"), true));
                }
                if konst(&p) && !(konst(a) && konst(b)) && eq_mod_const(a, b) {
                    out.push(fail(&format!("{fname}:const-result-from-non-const-operand"), a, b, format!("{p:?}"), true));
                }
            }
        } else if in_tower {
            out.push(fail(&format!("{fname}:void-although-bound-exists"), a, b, "Void".into(), true));
        }
    }
    // literal castability: superset of promotion into the target, never narrowing in kind
    let p = types::promote_types(a, b);
    let can = types::can_cast_literal(a, b);
    if has_bound(a, b) && p != Type::Void && eq_mod_const(&p, a) && !can {
        out.push(fail("can_cast_literal:not-superset-of-promotion", a, b, format!("promote={p:?}"), true));
    }
    if can {
        let bad = matches!(
            (a, b),
            (Type::Int(..) | Type::UInt(..), Type::Float(..) | Type::Complex(..)) | (Type::Float(..), Type::Complex(..))
        );
        if bad {
            out.push(fail("can_cast_literal:narrowing-allowed", a, b, "true".into(), false));
        }
    }
    // implicit_cast_type: an upper bound of both operands or Void
    for op in [
        ArithOp::Add, ArithOp::Sub, ArithOp::Mul, ArithOp::Div, ArithOp::Mod, ArithOp::Rem, ArithOp::Shl,
        ArithOp::Shr, ArithOp::BitXOr, ArithOp::BitOr, ArithOp::BitAnd,
    ] {
        let r = implicit_cast_type(&op, a, b);
        if r == Type::Void {
            continue;
        }
        // Judged only inside the numeric tower (the statement's order does not mention the rest).
        if !has_bound(a, b) {
            continue;
        }
        let ok = le(a, &r) && le(b, &r);
        if !ok {
            out.push(Failure::new(
                format!("C20:implicit_cast_type:not-upper-bound:{op:?}:{},{}", kind_name(a), kind_name(b)),
                json!({"input": {"types": [format!("{a:?}"), format!("{b:?}")], "op": format!("{op:?}")}, "actual": format!("{r:?}")}),
            ));
        }
    }
    // equivalences consistent with the constructors
    if types::equal_base_type(a, b) != (a.base_type() == b.base_type()) {
        out.push(fail("equal_base_type:inconsistent", a, b, String::new(), false));
    }
    if a.equal_up_to_shape(b) != b.equal_up_to_shape(a) || a.equal_up_to_dims(b) != b.equal_up_to_dims(a) {
        out.push(fail("equal_up_to_shape:asymmetric", a, b, String::new(), false));
    }
    if a == b && !(a.equal_up_to_shape(b) && a.equal_up_to_dims(b)) {
        out.push(fail("equal_up_to_shape:not-reflexive", a, b, String::new(), false));
    }
    if a.equal_up_to_dims(b) && !a.equal_up_to_shape(b) {
        out.push(fail("equal_up_to_dims:not-finer-than-shape", a, b, String::new(), false));
    }
    if (a.equal_up_to_shape(b) || a.equal_up_to_dims(b)) && a.base_type() != b.base_type() {
        out.push(fail("equal_up_to_shape:different-base-type", a, b, String::new(), false));
    }
}

pub fn check_triple(a: &Type, b: &Type, c: &Type, out: &mut Vec<Failure>) -> bool {
    let ab = types::promote_types(a, b);
    let bc = types::promote_types(b, c);
    if ab == Type::Void || bc == Type::Void {
        return false;
    }
    let l = types::promote_types(&ab, c);
    let r = types::promote_types(a, &bc);
    if l == Type::Void || r == Type::Void {
        // a common type exists pairwise but not for the triple
        if has_bound(a, b) && has_bound(b, c) {
            out.push(Failure::new(
                format!("C20:promote_types:triple-void:{},{},{}", kind_name(a), kind_name(b), kind_name(c)),
                json!({"input": {"types": [format!("{a:?}"), format!("{b:?}"), format!("{c:?}")]}, "actual": format!("{l:?} / {r:?}")}),
            ));
        }
        return true;
    }
    if !eq_mod_const(&l, &r) {
        out.push(Failure::new(
            format!("C20:promote_types:not-associative:{},{},{}", kind_name(a), kind_name(b), kind_name(c)),
            json!({"input": {"types": [format!("{a:?}"), format!("{b:?}"), format!("{c:?}")]}, "actual": format!("{l:?} vs {r:?}")}),
        ));
    }
    true
}

pub fn replay_types(v: &serde_json::Value) -> Result<Vec<Failure>, String> {
    let names: Vec<String> = v["input"]["types"].as_array().ok_or("no input.types")?.iter().filter_map(|x| x.as_str().map(|s| s.to_string())).collect();
    let all = all_types();
    let find = |n: &String| all.iter().find(|t| &format!("{t:?}") == n).cloned();
    let ts: Vec<Type> = names.iter().filter_map(find).collect();
    if ts.len() != names.len() {
        return Err("type not in the enumerated abstraction".into());
    }
    let mut out = vec![];
    match ts.len() {
        2 => check_pair(&ts[0], &ts[1], &mut out),
        3 => {
            check_triple(&ts[0], &ts[1], &ts[2], &mut out);
        }
        _ => return Err("need 2 or 3 types".into()),
    }
    Ok(out)
}

pub fn run(ctx: &RunCtx) {
    ctx.set_rule("every ordered pair and triple of the enumerated type abstraction (all 27 Type constructors x widths {none,1,8,32,64,128,2^32-1} x const flags x array shapes); non-trivial = the types differ in kind, width or const-ness; distinct by the pair/triple");
    ctx.assume("reference order: int, uint < float < complex; widths compared only within a kind, 'no width' on top (weakest reading of the statement); types outside the tower are judged only on reflexivity and 'Void or the argument itself'");
    let all = all_types();
    let n = all.len();
    ctx.note(format!("{n} types, {} ordered pairs, {} ordered triples", n * n, n * n * n));
    ctx.par_units(n, |i, st| {
        for j in 0..n {
            heartbeat_tick();
            let (a, b) = (&all[i], &all[j]);
            let mut fails = vec![];
            match guarded(|| {
                let mut f = vec![];
                check_pair(a, b, &mut f);
                f
            }) {
                Ok(f) => fails.extend(f),
                Err(p) => fails.push(Failure::new(
                    format!("C20:{}", panic_key(&p)),
                    json!({"input": {"types": [format!("{a:?}"), format!("{b:?}")]}, "actual": p.msg}),
                )),
            }
            let mut rep = CaseReport::default();
            rep.failures = fails;
            rep.class("pair");
            if a != b {
                rep.nontrivial = Some(mix(i as u64, j as u64 + 1000));
            }
            if (i * n + j) % 1571 == 0 {
                rep.sample = Some(format!("promote_types({a:?}, {b:?}) = {:?}", types::promote_types(a, b)));
            }
            ctx.eval_local("C20", st, rep);
        }
    });
    ctx.par_units(n, |i, st| {
        for j in 0..n {
            for k in 0..n {
                let (a, b, c) = (&all[i], &all[j], &all[k]);
                // only triples inside the numeric tower can have pairwise common types that differ
                let mut fails = vec![];
                let judged = match guarded(|| {
                    let mut f = vec![];
                    let j = check_triple(a, b, c, &mut f);
                    (j, f)
                }) {
                    Ok((j, f)) => {
                        fails.extend(f);
                        j
                    }
                    Err(p) => {
                        fails.push(Failure::new(format!("C20:{}", panic_key(&p)), json!({"actual": p.msg})));
                        true
                    }
                };
                if !judged {
                    continue;
                }
                heartbeat_tick();
                let mut rep = CaseReport::default();
                rep.failures = fails;
                rep.class("triple");
                if !(a == b && b == c) {
                    rep.nontrivial = Some(mix(mix(i as u64, j as u64 + 1000), k as u64 + 100000));
                }
                ctx.eval_local("C20", st, rep);
            }
        }
    });
    ctx.mark_exhaustive(format!("all {} ordered pairs and all ordered triples with pairwise common types over {n} enumerated types", n * n));
}
