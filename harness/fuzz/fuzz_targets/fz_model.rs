#![no_main]
// bytes -> choice sequence -> semantic program generator (faulty profile) -> printed program: C03, semantic half of C12, pipeline gate of C11
mod common;
use libfuzzer_sys::fuzz_target;

fuzz_target!(|data: &[u8]| {
    common::init();
    let (_, fails) = oq3_verif_harness::fuzzrun::oracle("fz_model", data);
    common::judge(fails, &["C03:", "C11:", "C12:"]);
});
