#!/usr/bin/env python3
"""Developer tool (never run by a check): automatic mutation sampling.

Draws N single-token mutations (operator swaps, negations, constant nudges, expect->eat) from the
library sources of a scratch worktree of /repo, and for each one that (a) compiles and (b) passes
the repository's 228 tests, runs the quick checks of the properties its crate can affect through
a scratch copy of /verif. Results are appended to mutants/AUTO_RESULTS.tsv:
  id  file:line  operator  status  detail
status: nocompile | killed-by-suite | caught (detail = IDs that raised a VIOLATION) |
        survived (no check objected) | inconclusive (a check exited 2).
Survivors are the interesting rows: each is either an equivalent mutant, outside all listed
properties, or a gap in a check.

usage: mutants_auto.py <seed> <count> [--minutes M]
"""
import json, os, random, re, subprocess, sys, time, shutil

SV, SR = "/tmp/ma", "/tmp/ma-repo"
ROOT = os.path.dirname(os.path.dirname(os.path.abspath(__file__)))
ENV = dict(os.environ, CARGO_NET_OFFLINE="true")

FILES = {
    "lexer": ["crates/oq3_lexer/src/lib.rs", "crates/oq3_lexer/src/cursor.rs", "crates/oq3_lexer/src/unescape.rs"],
    "parser": ["crates/oq3_parser/src/event.rs", "crates/oq3_parser/src/input.rs", "crates/oq3_parser/src/lexed_str.rs",
               "crates/oq3_parser/src/parser.rs", "crates/oq3_parser/src/shortcuts.rs", "crates/oq3_parser/src/token_set.rs",
               "crates/oq3_parser/src/grammar.rs", "crates/oq3_parser/src/grammar/expressions.rs",
               "crates/oq3_parser/src/grammar/expressions/atom.rs", "crates/oq3_parser/src/grammar/items.rs",
               "crates/oq3_parser/src/grammar/params.rs"],
    "syntax": ["crates/oq3_syntax/src/parsing.rs", "crates/oq3_syntax/src/validation.rs", "crates/oq3_syntax/src/ast/expr_ext.rs",
               "crates/oq3_syntax/src/ast/node_ext.rs", "crates/oq3_syntax/src/ast/token_ext.rs", "crates/oq3_syntax/src/ast/operators.rs",
               "crates/oq3_syntax/src/ast/type_ext.rs"],
    "source_file": ["crates/oq3_source_file/src/source_file.rs", "crates/oq3_source_file/src/api.rs"],
    "semantics": ["crates/oq3_semantics/src/syntax_to_semantics.rs", "crates/oq3_semantics/src/types.rs", "crates/oq3_semantics/src/symbols.rs",
                  "crates/oq3_semantics/src/context.rs", "crates/oq3_semantics/src/asg.rs", "crates/oq3_semantics/src/semantic_error.rs"],
}
CHECKS = {
    "lexer": ["C14", "C15", "C11", "C01", "C02", "C12", "C10", "C17"],
    "parser": ["C01", "C02", "C12", "C04", "C05", "C16", "C14", "C15", "C11", "C03", "C17"],
    "syntax": ["C04", "C05", "C12", "C10", "C11", "C02", "C06", "C09", "C03", "C16"],
    "source_file": ["C18", "C11", "C12", "C03"],
    "semantics": ["C03", "C06", "C07", "C08", "C09", "C10", "C13", "C17", "C18", "C19", "C20", "C12", "C11"],
}
OPS = [
    ("eq->ne", r"(?<![=!<>])==(?!=)", "!="), ("ne->eq", r"!=(?!=)", "=="),
    ("le->lt", r"(?<![<-])<=(?!=)", "<"), ("ge->gt", r"(?<![->=])>=(?!=)", ">"),
    ("and->or", r"&&", "||"), ("or->and", r"\|\|", "&&"),
    ("true->false", r"\btrue\b", "false"), ("false->true", r"\bfalse\b", "true"),
    ("plus1->plus0", r"\+ 1\b", "+ 0"), ("minus1->minus0", r"- 1\b", "- 0"), ("plus1->plus2", r"\+ 1\b", "+ 2"),
    ("is_some->is_none", r"\.is_some\(\)", ".is_none()"), ("is_none->is_some", r"\.is_none\(\)", ".is_some()"),
    ("drop-not", r"(?<![=!<>&|A-Za-z0-9_\)])!(?=[a-z_(])(?!=)", ""),
    ("expect->eat", r"\bp\.expect\(", "p.eat("), ("eat->at", r"\bp\.eat\(", "p.at("),
    ("0->1", r"(?<![\w.])0(?![\w.])", "1"), ("1->0", r"(?<![\w.])1(?![\w.])", "0"),
    ("lt->le", r"(?<=\w) < (?=[\w(])", " <= "), ("gt->ge", r"(?<=\w) > (?=[\w(])", " >= "),
    ("unwrap_or_default", r"\.unwrap_or\(0\)", ".unwrap_or(1)"),
    ("min->max", r"\.min\(", ".max("), ("max->min", r"\.max\(", ".min("),
    ("first->last", r"\.first\(\)", ".last()"), ("Some->None-return", r"return Some\((\w+)\);", "return None;"),
]


def sh(cmd, cwd=None, timeout=None):
    try:
        r = subprocess.run(cmd, shell=True, cwd=cwd, env=ENV, capture_output=True, text=True, timeout=timeout)
        return r.returncode, r.stdout + r.stderr
    except subprocess.TimeoutExpired:
        return 124, "timeout"


def sites():
    out = []
    for crate, files in FILES.items():
        for f in files:
            p = os.path.join(SR, f)
            if not os.path.exists(p):
                continue
            in_test = False
            in_verif = 0
            for ln, line in enumerate(open(p).read().split("\n")):
                s = line.strip()
                if s.startswith("#[cfg(test)]"):
                    in_test = True
                if in_test:
                    continue
                if "oq3_verif" in line:
                    in_verif = 40 if "pub mod verif" in "".join(open(p).read().split("\n")[ln:ln + 3]) else 2
                if in_verif > 0:
                    in_verif -= 1
                    continue
                if s.startswith("//") or s.startswith("#[") or s.startswith("use ") or "panic!" in s or "unreachable!" in s or "assert" in s or "debug_assert" in s:
                    continue
                code = line.split("//")[0]
                for name, rx, rep in OPS:
                    for m in re.finditer(rx, code):
                        out.append((crate, f, ln, m.start(), m.end(), name, rx, rep))
    return out


def main():
    seed, count = int(sys.argv[1]), int(sys.argv[2])
    minutes = float(sys.argv[sys.argv.index("--minutes") + 1]) if "--minutes" in sys.argv else 1e9
    t0 = time.time()
    if not os.path.isdir(SR):
        sh(f"git -C /repo worktree add -q --detach {SR} HEAD")
    head = subprocess.check_output("git -C /repo rev-parse HEAD", shell=True, text=True).strip()
    sh(f"git -C {SR} checkout -q --detach {head} && git -C {SR} checkout -q -- .")
    os.makedirs(SV, exist_ok=True)
    sh(f"rsync -a --delete --exclude harness/target --exclude harness/fuzz/target --exclude .git --exclude repo-link --exclude replays --exclude evidence {ROOT}/ {SV}/")
    sh(f"ln -sfn {SR} {SV}/repo-link; mkdir -p {SV}/evidence")
    all_sites = sites()
    rnd = random.Random(seed)
    rnd.shuffle(all_sites)
    # spread over crates: round-robin by crate
    by = {}
    for s in all_sites:
        by.setdefault(s[0], []).append(s)
    order = []
    weights = {"semantics": 4, "parser": 3, "lexer": 2, "syntax": 2, "source_file": 1}
    while len(order) < count and any(by.values()):
        for c, w in weights.items():
            for _ in range(w):
                if by.get(c):
                    order.append(by[c].pop())
    order = order[:count]
    res_path = os.path.join(ROOT, "mutants", "AUTO_RESULTS.tsv")
    print(f"{len(all_sites)} candidate sites; sampling {len(order)} (seed {seed})", flush=True)
    for k, (crate, f, ln, a, b, name, rx, rep) in enumerate(order):
        if (time.time() - t0) / 60 > minutes:
            break
        p = os.path.join(SR, f)
        sh(f"git -C {SR} checkout -q -- .")
        lines = open(p).read().split("\n")
        old = lines[ln]
        new = old[:a] + re.sub(rx, rep, old[a:b], count=1) + old[b:]
        if new == old:
            continue
        lines[ln] = new
        open(p, "w").write("\n".join(lines))
        mid = f"s{seed}-{k:03d}"
        where = f"{f}:{ln + 1}"
        status, detail = None, ""
        rc, out = sh("cargo build --workspace --offline", cwd=SR, timeout=900)
        if rc != 0:
            status = "nocompile"
        else:
            rc, out = sh("cargo test --workspace --no-fail-fast --offline 2>&1 | grep -E '^test result|error: could not compile'", cwd=SR, timeout=900)
            failed = sum(int(x) for x in re.findall(r"(\d+) failed", out))
            passed = sum(int(x) for x in re.findall(r"(\d+) passed", out))
            if rc == 124 or "could not compile" in out:
                status, detail = "killed-by-suite", "timeout or build failure"
            elif failed > 0 or passed < 228:
                status, detail = "killed-by-suite", f"{passed} passed {failed} failed"
        if status is None:
            caught, incon = [], []
            for cid in CHECKS[crate]:
                rc, out = sh(f"VERIF_ROOT={SV} ./check {cid} --tier quick 2>&1 | grep -v '^KNOWN-FINDING' | tail -40", cwd=SV, timeout=1500)
                if "VIOLATION property=" in out:
                    key = re.search(r"key: (.*)", out)
                    caught.append(f"{cid}[{key.group(1)[:90] if key else ''}]")
                    break  # one objection is enough
                elif "violations=0" not in out:
                    incon.append(cid)
            if caught:
                status, detail = "caught", " ".join(caught)
            elif incon:
                status, detail = "inconclusive", " ".join(incon)
            else:
                status = "survived"
        row = f"{mid}\t{where}\t{name}\t{status}\t{detail}\t{old.strip()[:140]}"
        open(res_path, "a").write(row + "\n")
        print(f"[{(time.time() - t0) / 60:5.1f} min] {row[:260]}", flush=True)
    sh(f"git -C {SR} checkout -q -- .")


if __name__ == "__main__":
    main()
