#!/bin/bash
# Developer tool: run quick checks against a patched scratch worktree of /repo through a scratch
# copy of /verif (so that /repo and /verif/evidence stay untouched and other runs can go on).
# usage: scratch_run.sh <patch-file> <ID> [<ID>...]   |   scratch_run.sh --clean
set -u
SV=/tmp/sv; SR=/tmp/sv-repo
if [ "${1:-}" = "--clean" ]; then git -C /repo worktree remove --force $SR 2>/dev/null; rm -rf $SV $SR; git -C /repo worktree prune; exit 0; fi
P="$(readlink -f "$1")"; shift
[ -d $SR ] || git -C /repo worktree add -q --detach $SR HEAD || exit 2
git -C $SR checkout -q --detach "$(git -C /repo rev-parse HEAD)" && git -C $SR checkout -q -- . || exit 2
mkdir -p $SV
rsync -a --delete --exclude harness/target --exclude harness/fuzz/target --exclude .git --exclude repo-link --exclude replays --exclude evidence /verif/ $SV/
ln -sfn $SR $SV/repo-link; mkdir -p $SV/evidence
git -C $SR apply "$P" || { echo "patch does not apply"; exit 2; }
for id in "$@"; do
  start=$(date +%s)
  (cd $SV && VERIF_ROOT=$SV ./check $id --tier ${TIER:-quick}) > /tmp/sv_run.log 2>&1; rc=$?
  echo "$(basename $(dirname $P)) vs $id: rc=$rc ($(( $(date +%s)-start ))s) $(grep -m1 'key:' /tmp/sv_run.log | cut -c1-160)"
done
git -C $SR checkout -q -- .
