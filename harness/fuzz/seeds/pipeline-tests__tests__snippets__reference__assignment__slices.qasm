// lex: ok
// parse: ok
// sema: skip

array[uint[16], 2, 2] a = {{1, 2}, {3, 4}};
array[uint[16], 2, 4] b = {{1, 2, 3, 4}, {5, 6, 7, 8}};
// Various forms of testing that assignments can be made to indexed
// identifiers, and from indexed identifiers.
a = b[0:1][0:1];
a[0:1] = b[0:1][0:1];
a[0] = b[0][0:1];
a[0][0] = b[0][0];
a[0][0:1] = b[1][1:2:3];
a[0:1][0] = b[0:1][0];
a[0:1][0:1] = b[0:1][0:1];
