//! C11 — malformed lexemes are always diagnosed and errors gate the later stages.

use crate::engine::*;
use crate::lexgen::*;
use crate::lexprops::*;

pub fn replay(v: &serde_json::Value) -> Result<Vec<Failure>, String> {
    let text = v["input"]["source"].as_str().ok_or("no input.source")?;
    let mut out = vec![];
    if let Some(spans) = v["input"]["bad_spans"].as_array() {
        let bad: Vec<(usize, usize, &'static str)> = spans
            .iter()
            .map(|s| {
                let label: &'static str = Box::leak(s[2].as_str().unwrap_or("?").to_string().into_boxed_str());
                (s[0].as_u64().unwrap_or(0) as usize, s[1].as_u64().unwrap_or(0) as usize, label)
            })
            .collect();
        check_malformed(text, &bad, &mut out);
    }
    check_lex_gate(text, &mut out);
    crate::pipeline::check_gating_source(text, &mut out);
    Ok(out)
}

pub fn run(ctx: &RunCtx) {
    ctx.set_rule("lexical half: well-formed lexeme sequences (G-lex) with 1-3 malformed lexemes (unterminated string / bit string / nested block comment placed last, base prefix without digits, exponent without digits, malformed version headers, identifiers with emoji, #word) spliced at random positions; gating half: text inputs and generated programs, valid or with an injected syntax fault in the main text or an included file, through parse_check_lex and the full pipeline. non-trivial = >=1 malformed lexeme not at position 0, or a syntax fault inside an included file; distinct by input hash");
    ctx.assume("a lexeme that swallows the rest of the input (unterminated string or comment) is placed last; its expected span extends to the end of input");
    let n = ctx.pick(300_000u64, 20_000_000u64);
    ctx.random("malformed-lexeme", n, 300, |src| {
        let (r, labels) = gen_malformed_case(src);
        let mut rep = CaseReport::default();
        let mut fails = vec![];
        check_malformed(&r.text, &r.bad_spans, &mut fails);
        check_lex_gate(&r.text, &mut fails);
        rep.failures = fails;
        for l in labels {
            rep.class(l);
        }
        if r.bad_spans.iter().any(|b| b.0 > 0) {
            rep.nontrivial = Some(fnv64(r.text.as_bytes()));
        }
        rep.sample = Some(r.text);
        rep
    });
    // the lex gate on well-formed sequences and arbitrary text
    let n = ctx.pick(100_000u64, 5_000_000u64);
    ctx.random("gate-wellformed", n, 300, |src| {
        let seq = gen_sequence(src, 16);
        let r = render(src, &seq, false);
        let mut rep = CaseReport::default();
        check_lex_gate(&r.text, &mut rep.failures);
        rep.class("wellformed");
        rep
    });
    ctx.random("gate-chars", n, 200, |src| {
        let text = crate::textgen::gen_chars(src, 64);
        let mut rep = CaseReport::default();
        check_lex_gate(&text, &mut rep.failures);
        rep.class("chars");
        if !text.is_empty() {
            rep.nontrivial = Some(fnv64(text.as_bytes()));
        }
        rep
    });
    crate::pipeline::run_gating(ctx);
}
