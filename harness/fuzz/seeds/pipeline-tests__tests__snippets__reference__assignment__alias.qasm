// lex: ok
// parse: ok
// sema: todo

bit[2] a;
creg b[2];
qubit[5] q1;
qreg q2[7];
let q = q1 ++ q2;
let c = a[{0,1}] ++ b[1:2];
let qq = q1[{1,3,4}];
let qqq = qq ++ q2[1:2:6];
let d = c;
let e = d[1];
