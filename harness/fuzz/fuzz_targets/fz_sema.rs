#![no_main]
// bytes -> text; when it parses without diagnostics: C03 (analysis returns, scope depth 1) and the semantic half of C12; always the pipeline gate of C11
mod common;
use libfuzzer_sys::fuzz_target;

fuzz_target!(|data: &[u8]| {
    common::init();
    let (_, fails) = oq3_verif_harness::fuzzrun::oracle("fz_sema", data);
    common::judge(fails, &["C03:", "C11:", "C12:"]);
});
