// lex: ok
// parse: diag
// sema: skip

U (1)(2) $0;
notmodifier @ x $0;
pow @ x $0;
pow(2, 3) @ x $0;
ctrl(2, 3) @ x $0, $1;
negctrl(2, 3) @ x $0, $1;
inv(1) @ ctrl @ x $0, $1;

// Global phase is defined in the grammar to be the last modifier.
gphase(pi) @ ctrl @ x $0, $1;
