// lex: ok
// parse: ok
// sema: panic

include "stdgates.inc";
if (x == a) {
  for uint i in [0:2:4] x[i] += 1;
}
else CX x[0], x[1];
