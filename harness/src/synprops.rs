//! C04 (valid programs are accepted), C05 (AST mirrors the derivation), C16 (compositionality).

use crate::astabs::*;
use crate::engine::*;
use crate::layout::*;
use crate::model::*;
use crate::modelgen::*;
use oq3_syntax::ast::AstNode;
use oq3_syntax::{NodeOrToken, SourceFile, SyntaxNode};
use serde_json::json;

pub struct Printed {
    pub text: String,
    pub toks: Vec<Tok>,
    pub spans: Vec<Span>,
    pub offsets: Vec<(usize, usize)>,
}

pub fn print_program(src: &mut Src, prog: &[Stmt], style: Style) -> Printed {
    let mut p = Printer::default();
    p.program(prog);
    let laid = lay(src, &p.toks, style);
    Printed { text: laid.text, toks: p.toks, spans: p.spans, offsets: laid.offsets }
}

/// Labels of the innermost statement / expression model nodes containing byte offset `off`.
pub fn locate(pr: &Printed, off: usize) -> (String, String, String) {
    // token index: first token whose end is > off (an error at a gap belongs to the next token)
    let ti = pr.offsets.iter().position(|(_, e)| *e > off).unwrap_or(pr.offsets.len().saturating_sub(1));
    let mut top = "?".to_string();
    let mut inner_stmt = "?".to_string();
    let mut inner_expr = "-".to_string();
    let mut best_stmt_depth = 0usize;
    let mut best_expr_depth = 0usize;
    for s in &pr.spans {
        if s.start <= ti && ti < s.end.max(s.start + 1) {
            if s.is_stmt {
                if s.depth == 0 {
                    top = s.label.clone();
                }
                if s.depth >= best_stmt_depth {
                    best_stmt_depth = s.depth;
                    inner_stmt = s.label.clone();
                }
            } else if s.depth >= best_expr_depth {
                best_expr_depth = s.depth;
                inner_expr = s.label.clone();
            }
        }
    }
    (top, inner_stmt, inner_expr)
}

fn norm_msg(m: &str) -> String {
    clip(&normalise_msg(m), 70)
}

/// C04 oracle on one printed program.
pub fn check_accept(pr: &Printed, out: &mut Vec<Failure>, keyer: &dyn Fn(&str, &str, &str, &str) -> String) -> bool {
    let text = &pr.text;
    let r = guarded(|| {
        let parse = SourceFile::parse(text);
        let errs: Vec<(usize, String)> = parse.errors().iter().map(|e| (e.range().start().into(), e.message().to_string())).collect();
        let p2 = SourceFile::parse_check_lex(text);
        let errs2: Vec<(usize, String)> = p2.errors().iter().map(|e| (e.range().start().into(), e.message().to_string())).collect();
        (errs, p2.have_parse(), errs2)
    });
    match r {
        Err(p) => {
            out.push(Failure::new(format!("C04:{}", panic_key(&p)), json!({"input": {"source": text}, "actual": p.msg})));
            false
        }
        Ok((errs, have, errs2)) => {
            let mut ok = true;
            if let Some((off, msg)) = errs.first() {
                let (top, st, ex) = locate(pr, *off);
                out.push(Failure::new(
                    keyer(&top, &st, &ex, &norm_msg(msg)),
                    json!({"input": {"source": text}, "actual": format!("{} syntax diagnostics; first at byte {off}: {msg}", errs.len())}),
                ));
                ok = false;
            } else if !have || !errs2.is_empty() {
                let (off, msg) = errs2.first().cloned().unwrap_or((0, "no tree".into()));
                let (top, st, ex) = locate(pr, off);
                out.push(Failure::new(
                    format!("{}:check_lex", keyer(&top, &st, &ex, &norm_msg(&msg))),
                    json!({"input": {"source": text}, "actual": format!("parse_check_lex: have_parse={have}, first diagnostic at byte {off}: {msg}")}),
                ));
                ok = false;
            }
            ok
        }
    }
}

fn default_keyer(top: &str, st: &str, ex: &str, msg: &str) -> String {
    format!("C04:reject:{top}/{st}/{ex}:{msg}")
}

pub fn replay_c04(v: &serde_json::Value) -> Result<Vec<Failure>, String> {
    let text = v["input"]["source"].as_str().ok_or("no input.source")?;
    let key = v["key"].as_str().unwrap_or("C04:reject:replay").to_string();
    let pr = Printed { text: text.to_string(), toks: vec![], spans: vec![], offsets: vec![] };
    let mut out = vec![];
    let k2 = key.clone();
    check_accept(&pr, &mut out, &move |_, _, _, _| k2.trim_end_matches(":check_lex").to_string());
    Ok(out)
}

// ------------------------------------------------------------------------------------------
// Context matrix (deterministic): expression forms x expression positions, statement forms x
// body positions. Shared by C04 (accepted?) and C05 (right shape?).
// ------------------------------------------------------------------------------------------

fn id(n: &str) -> Expr {
    Expr::Ident(n.to_string())
}
fn int(n: u32) -> Expr {
    Expr::Int(n.to_string())
}
fn bx(e: Expr) -> Box<Expr> {
    Box::new(e)
}

pub fn expr_forms() -> Vec<(String, Expr)> {
    let mut v: Vec<(String, Expr)> = vec![
        ("int-lit".into(), int(5)),
        ("hex-lit".into(), Expr::Int("0xFF".into())),
        ("float-lit".into(), Expr::Float("2.5".into())),
        ("float-lit-leading-dot".into(), Expr::Float(".5".into())),
        ("bool-lit".into(), Expr::Bool(true)),
        ("bitstring".into(), Expr::BitStr("\"0101\"".into())),
        ("timing-lit".into(), Expr::Timing("10".into(), false, "ns".into(), false)),
        ("imag-lit".into(), Expr::Imag("2.5".into(), true, false)),
        ("ident".into(), id("a")),
        ("paren".into(), Expr::Paren(bx(id("a")))),
        ("cast".into(), Expr::Cast(Ty::Int(Some(bx(int(8)))), bx(id("a")))),
        ("cast-no-width".into(), Expr::Cast(Ty::Float(None), bx(id("a")))),
        ("cast-complex".into(), Expr::Cast(Ty::Complex(Some(Some(bx(int(64))))), bx(id("a")))),
        ("call-0".into(), Expr::Call("f".into(), vec![])),
        ("call-2".into(), Expr::Call("f".into(), vec![id("a"), int(1)])),
        ("indexed-id".into(), Expr::IndexedId("a".into(), vec![Index::List(vec![IndexItem::Expr(int(0))])])),
        ("indexed-id-2".into(), Expr::IndexedId("a".into(), vec![Index::List(vec![IndexItem::Expr(int(0)), IndexItem::Expr(id("b"))])])),
        ("indexed-id-chain".into(), Expr::IndexedId("a".into(), vec![Index::List(vec![IndexItem::Expr(int(0))]), Index::List(vec![IndexItem::Expr(int(1))])])),
        ("indexed-id-range".into(), Expr::IndexedId("a".into(), vec![Index::List(vec![IndexItem::Range(int(0), None, int(3))])])),
        ("indexed-id-range-step".into(), Expr::IndexedId("a".into(), vec![Index::List(vec![IndexItem::Range(int(0), Some(int(2)), int(8))])])),
        ("indexed-id-set".into(), Expr::IndexedId("a".into(), vec![Index::Set(vec![int(0), int(2)])])),
        ("index-expr-paren".into(), Expr::IndexExpr(bx(Expr::Paren(bx(id("a")))), Index::List(vec![IndexItem::Expr(int(0))]))),
        ("index-expr-call".into(), Expr::IndexExpr(bx(Expr::Call("f".into(), vec![id("a")])), Index::List(vec![IndexItem::Expr(int(0))]))),
        ("neg-lit".into(), Expr::Un(UnOp::Neg, bx(int(1)))),
        // consecutive index operators on a base that is not a plain identifier nest to the left
        ("index-expr-call-twice".into(), Expr::IndexExpr(bx(Expr::IndexExpr(bx(Expr::Call("f".into(), vec![id("a")])), Index::List(vec![IndexItem::Expr(int(1))]))), Index::List(vec![IndexItem::Expr(int(0))]))),
        ("index-expr-paren-range-then-index".into(), Expr::IndexExpr(bx(Expr::IndexExpr(bx(Expr::Paren(bx(id("a")))), Index::List(vec![IndexItem::Range(int(0), None, int(3))]))), Index::List(vec![IndexItem::Expr(int(2))]))),
        ("index-expr-cast-thrice".into(), Expr::IndexExpr(bx(Expr::IndexExpr(bx(Expr::IndexExpr(bx(Expr::Cast(Ty::Bit(Some(bx(int(8)))), bx(id("a")))), Index::List(vec![IndexItem::Expr(int(0))]))), Index::Set(vec![int(1), int(2)]))), Index::List(vec![IndexItem::Expr(id("b"))]))),
        // literal spellings with a sign, an upper-case exponent, a leading dot, a unit
        ("neg-float-lit".into(), Expr::Un(UnOp::Neg, bx(Expr::Float("2.5".into())))),
        ("neg-imag-float-lit".into(), Expr::Un(UnOp::Neg, bx(Expr::Imag("2.5".into(), true, false)))),
        ("neg-imag-int-lit".into(), Expr::Un(UnOp::Neg, bx(Expr::Imag("3".into(), false, true)))),
        ("neg-timing-lit".into(), Expr::Un(UnOp::Neg, bx(Expr::Timing("10".into(), false, "us".into(), false)))),
        ("float-lit-upper-exponent".into(), Expr::Float("1E3".into())),
        ("float-lit-dot-upper-signed-exponent".into(), Expr::Float(".5E-3".into())),
        ("float-lit-trailing-dot-exponent".into(), Expr::Float("1.e+2".into())),
        ("timing-lit-leading-dot".into(), Expr::Timing(".5".into(), true, "ms".into(), false)),
        ("timing-lit-upper-exponent".into(), Expr::Timing("2E3".into(), true, "ns".into(), false)),
        ("imag-lit-leading-dot".into(), Expr::Imag(".5".into(), true, false)),
        ("imag-int-lit-spaced".into(), Expr::Imag("7".into(), false, true)),
        ("int-lit-underscore-after-zero".into(), Expr::Int("0_1".into())),
        ("timing-lit-underscore-after-zero".into(), Expr::Timing("0_1".into(), false, "ns".into(), false)),
    ];
    for op in BINOPS {
        v.push((format!("binary{}", op.text()), Expr::Bin(op, bx(id("a")), bx(id("b")))));
    }
    for op in [UnOp::Neg, UnOp::Not, UnOp::BitNot] {
        v.push((format!("unary{}", op.text()), Expr::Un(op, bx(id("a")))));
    }
    // long spines: n operands joined by one operator (left-nested, `**` right-nested)
    let name = |i: usize| id(&format!("a{i}"));
    for op in [BinOp::Sub, BinOp::Mul, BinOp::Shl, BinOp::LogOr, BinOp::Neq, BinOp::Pow] {
        for n in [3usize, 6, 7, 8, 9, 10, 12, 17, 33] {
            let e = if op == BinOp::Pow {
                let mut e = name(n - 1);
                for i in (0..n - 1).rev() {
                    e = Expr::Bin(op, bx(name(i)), bx(e));
                }
                e
            } else {
                let mut e = name(0);
                for i in 1..n {
                    e = Expr::Bin(op, bx(e), bx(name(i)));
                }
                e
            };
            v.push((format!("chain{}x{n}", op.text()), e));
        }
    }
    // the whole precedence ladder, tightest operator first (left spine) and last (right spine)
    let ladder = [BinOp::Mul, BinOp::Add, BinOp::Shl, BinOp::Lt, BinOp::Eq, BinOp::BitAnd, BinOp::BitXor, BinOp::BitOr, BinOp::LogAnd, BinOp::LogOr];
    let mut down = Expr::Bin(BinOp::Pow, bx(name(0)), bx(name(1)));
    for (i, op) in ladder.iter().enumerate() {
        down = Expr::Bin(*op, bx(down), bx(name(i + 2)));
    }
    v.push(("ladder-tightest-first".into(), down));
    let mut up = Expr::Bin(BinOp::Pow, bx(name(10)), bx(name(11)));
    for (i, op) in ladder.iter().enumerate() {
        up = Expr::Bin(*op, bx(name(9 - i)), bx(up));
    }
    v.push(("ladder-tightest-last".into(), up));
    // long postfix, prefix and parenthesis chains
    v.push(("indexed-id-chain-x10".into(), Expr::IndexedId("a".into(), (0..10).map(|i| Index::List(vec![IndexItem::Expr(int(i))])).collect())));
    let mut ix = Expr::Call("f".into(), vec![id("a")]);
    for i in 0..10 {
        ix = Expr::IndexExpr(bx(ix), Index::List(vec![IndexItem::Expr(int(i))]));
    }
    v.push(("index-expr-chain-x10".into(), ix));
    let mut un = id("a");
    for i in 0..12 {
        un = Expr::Un([UnOp::Not, UnOp::BitNot, UnOp::Neg][i % 3], bx(un));
    }
    v.push(("unary-chain-x12".into(), un));
    let mut pa = Expr::Bin(BinOp::Add, bx(id("a")), bx(id("b")));
    for _ in 0..12 {
        pa = Expr::Paren(bx(pa));
    }
    v.push(("paren-chain-x12".into(), pa));
    let mut ca = id("a");
    for i in 0..10 {
        ca = Expr::Cast(if i % 2 == 0 { Ty::Int(Some(bx(int(8)))) } else { Ty::Float(None) }, bx(ca));
    }
    v.push(("cast-chain-x10".into(), ca));
    v
}

pub fn expr_positions() -> Vec<(&'static str, Box<dyn Fn(Expr) -> Stmt + Sync + Send>)> {
    let q = || Operand::Id("q".into());
    let mut v: Vec<(&'static str, Box<dyn Fn(Expr) -> Stmt + Sync + Send>)> = vec![];
    v.push(("decl-init", Box::new(|e| Stmt::ClassicalDecl { konst: false, ty: Ty::Int(Some(bx(int(32)))), name: "x".into(), init: Some(e) })));
    v.push(("const-decl-init", Box::new(|e| Stmt::ClassicalDecl { konst: true, ty: Ty::Float(None), name: "x".into(), init: Some(e) })));
    v.push(("assign-rhs", Box::new(|e| Stmt::Assign { target: LValue::Id("x".into()), op: AssignOp::Assign, value: e })));
    v.push(("indexed-assign-rhs", Box::new(|e| Stmt::Assign { target: LValue::Indexed("x".into(), vec![Index::List(vec![IndexItem::Expr(int(0))])]), op: AssignOp::Assign, value: e })));
    v.push(("compound-assign-rhs", Box::new(|e| Stmt::Assign { target: LValue::Id("x".into()), op: AssignOp::Compound(BinOp::Add), value: e })));
    v.push(("assign-target-index", Box::new(|e| Stmt::Assign { target: LValue::Indexed("x".into(), vec![Index::List(vec![IndexItem::Expr(e)])]), op: AssignOp::Assign, value: int(1) })));
    v.push(("if-condition", Box::new(|e| Stmt::If { cond: e, then: Body::Block(vec![Stmt::Break]), els: None })));
    v.push(("while-condition", Box::new(|e| Stmt::While { cond: e, body: Body::Block(vec![Stmt::Continue]) })));
    v.push(("for-range-start", Box::new(|e| Stmt::For { ty: Ty::Int(None), var: "i".into(), iter: ForIter::Range(e, None, int(9)), body: Body::Block(vec![]) })));
    v.push(("for-range-step", Box::new(|e| Stmt::For { ty: Ty::Int(None), var: "i".into(), iter: ForIter::Range(int(0), Some(e), int(9)), body: Body::Block(vec![]) })));
    v.push(("for-range-stop", Box::new(|e| Stmt::For { ty: Ty::Int(None), var: "i".into(), iter: ForIter::Range(int(0), None, e), body: Body::Block(vec![]) })));
    v.push(("for-set-element", Box::new(|e| Stmt::For { ty: Ty::Int(None), var: "i".into(), iter: ForIter::Set(vec![int(1), e]), body: Body::Block(vec![]) })));
    v.push(("switch-control", Box::new(|e| Stmt::Switch { control: e, cases: vec![(vec![int(1)], vec![])], default: None })));
    v.push(("case-value", Box::new(|e| Stmt::Switch { control: id("x"), cases: vec![(vec![int(1), e], vec![])], default: Some(vec![]) })));
    v.push(("index-item", Box::new(|e| Stmt::ClassicalDecl { konst: false, ty: Ty::Int(None), name: "x".into(), init: Some(Expr::IndexedId("b".into(), vec![Index::List(vec![IndexItem::Expr(e)])])) })));
    v.push(("range-index-stop", Box::new(|e| Stmt::ClassicalDecl { konst: false, ty: Ty::Int(None), name: "x".into(), init: Some(Expr::IndexedId("b".into(), vec![Index::List(vec![IndexItem::Range(int(0), None, e)])])) })));
    v.push(("call-argument", Box::new(|e| Stmt::ExprStmt(Expr::Call("f".into(), vec![int(1), e])))));
    v.push(("gate-argument", Box::new(move |e| Stmt::GateCall { mods: vec![], name: "rz".into(), args: Some(vec![e]), operands: vec![q()] })));
    v.push(("pow-modifier-argument", Box::new(move |e| Stmt::GateCall { mods: vec![Modifier::Pow(e)], name: "h".into(), args: None, operands: vec![q()] })));
    v.push(("ctrl-modifier-argument", Box::new(move |e| Stmt::GateCall { mods: vec![Modifier::Ctrl(Some(e))], name: "x".into(), args: None, operands: vec![q(), Operand::Id("r".into())] })));
    v.push(("gphase-argument", Box::new(|e| Stmt::GPhase { mods: vec![], arg: e, operands: vec![] })));
    v.push(("return-value", Box::new(|e| Stmt::Def { name: "f".into(), params: vec![], ret: Some(Ty::Int(None)), body: vec![Stmt::Return(Some(e))] })));
    v.push(("delay-designator", Box::new(move |e| Stmt::Delay(e, vec![q()]))));
    v.push(("cast-argument", Box::new(|e| Stmt::ClassicalDecl { konst: false, ty: Ty::Int(None), name: "x".into(), init: Some(Expr::Cast(Ty::Int(Some(bx(int(8)))), bx(e))) })));
    v.push(("paren-operand", Box::new(|e| Stmt::ClassicalDecl { konst: false, ty: Ty::Int(None), name: "x".into(), init: Some(Expr::Bin(BinOp::Mul, bx(Expr::Paren(bx(e))), bx(int(2)))) })));
    v.push(("operand-index", Box::new(|e| Stmt::GateCall { mods: vec![], name: "h".into(), args: None, operands: vec![Operand::Indexed("q".into(), vec![Index::List(vec![IndexItem::Expr(e)])])] })));
    v.push(("expr-stmt", Box::new(|e| Stmt::ExprStmt(Expr::Paren(bx(e))))));
    v
}

/// Integer-valued expression positions (designators, dimensions).
pub fn designator_positions() -> Vec<(&'static str, Box<dyn Fn(Expr) -> Stmt + Sync + Send>)> {
    let mut v: Vec<(&'static str, Box<dyn Fn(Expr) -> Stmt + Sync + Send>)> = vec![];
    v.push(("width-designator", Box::new(|e| Stmt::ClassicalDecl { konst: false, ty: Ty::Int(Some(bx(e))), name: "x".into(), init: None })));
    v.push(("complex-width", Box::new(|e| Stmt::ClassicalDecl { konst: false, ty: Ty::Complex(Some(Some(bx(e)))), name: "x".into(), init: None })));
    v.push(("qubit-register-size", Box::new(|e| Stmt::QubitDecl { size: Some(e), name: "q".into() })));
    v.push(("array-dimension", Box::new(|e| Stmt::ArrayDecl { base: Ty::Int(Some(bx(int(8)))), dims: vec![int(2), e], name: "x".into(), init: None })));
    v.push(("cast-width", Box::new(|e| Stmt::ClassicalDecl { konst: false, ty: Ty::Int(None), name: "x".into(), init: Some(Expr::Cast(Ty::UInt(Some(bx(e))), bx(id("a")))) })));
    v.push(("creg-size", Box::new(|e| Stmt::OldDecl { qreg: false, name: "c".into(), size: e })));
    v.push(("def-param-width", Box::new(|e| Stmt::Def { name: "f".into(), params: vec![(ParamTy::Scalar(Ty::Int(Some(bx(e)))), "p".into())], ret: None, body: vec![] })));
    v.push(("for-var-width", Box::new(|e| Stmt::For { ty: Ty::UInt(Some(bx(e))), var: "i".into(), iter: ForIter::Set(vec![int(1)]), body: Body::Block(vec![]) })));
    v
}

pub fn stmt_forms() -> Vec<(String, Stmt)> {
    let q = || Operand::Id("q".into());
    let qi = || Operand::Indexed("q".into(), vec![Index::List(vec![IndexItem::Expr(int(0))])]);
    let blk = |v: Vec<Stmt>| Body::Block(v);
    let sgl = |s: Stmt| Body::Single(Box::new(s));
    let asg = |n: &str, k: u32| Stmt::Assign { target: LValue::Id(n.to_string()), op: AssignOp::Assign, value: int(k) };
    let call = |g: &str| Stmt::GateCall { mods: vec![], name: g.to_string(), args: None, operands: vec![Operand::Id("q".into())] };
    let mut v: Vec<(String, Stmt)> = vec![
        ("decl".into(), Stmt::ClassicalDecl { konst: false, ty: Ty::Int(Some(bx(int(8)))), name: "x".into(), init: None }),
        ("decl-init".into(), Stmt::ClassicalDecl { konst: false, ty: Ty::Float(None), name: "x".into(), init: Some(Expr::Float("1.5".into())) }),
        ("const-decl".into(), Stmt::ClassicalDecl { konst: true, ty: Ty::UInt(Some(bx(int(16)))), name: "n".into(), init: Some(int(4)) }),
        ("decl-complex".into(), Stmt::ClassicalDecl { konst: false, ty: Ty::Complex(Some(Some(bx(int(64))))), name: "z".into(), init: None }),
        ("decl-measure".into(), Stmt::ClassicalDecl { konst: false, ty: Ty::Bit(None), name: "c".into(), init: Some(Expr::Measure(q())) }),
        ("array-decl".into(), Stmt::ArrayDecl { base: Ty::Int(Some(bx(int(8)))), dims: vec![int(2), int(3)], name: "arr".into(), init: None }),
        ("qubit-decl".into(), Stmt::QubitDecl { size: None, name: "q".into() }),
        ("qubit-register-decl".into(), Stmt::QubitDecl { size: Some(int(4)), name: "r".into() }),
        ("hw-qubit-decl".into(), Stmt::HwQubitDecl("$0".into())),
        ("qreg".into(), Stmt::OldDecl { qreg: true, name: "q".into(), size: int(2) }),
        ("creg".into(), Stmt::OldDecl { qreg: false, name: "c".into(), size: int(2) }),
        ("input".into(), Stmt::IoDecl { input: true, ty: Ty::Angle(Some(bx(int(32)))), name: "th".into() }),
        ("output".into(), Stmt::IoDecl { input: false, ty: Ty::Bit(Some(bx(int(2)))), name: "res".into() }),
        ("input-array".into(), Stmt::IoArrayDecl { input: true, base: Ty::Int(Some(bx(int(8)))), dims: vec![int(4)], name: "ia".into() }),
        ("output-array".into(), Stmt::IoArrayDecl { input: false, base: Ty::Complex(Some(Some(bx(int(64))))), dims: vec![int(2), int(2)], name: "oa".into() }),
        ("alias".into(), Stmt::Alias { name: "al".into(), value: id("q") }),
        ("alias-concat".into(), Stmt::Alias { name: "al".into(), value: Expr::Bin(BinOp::Concat, bx(id("q")), bx(Expr::IndexedId("r".into(), vec![Index::List(vec![IndexItem::Range(int(0), None, int(1))])]))) }),
        ("gate-def".into(), Stmt::Gate { name: "g".into(), params: Some(vec!["t".into(), "u".into()]), qubits: vec!["q0".into(), "q1".into()], body: vec![Stmt::GateCall { mods: vec![], name: "rz".into(), args: Some(vec![id("t")]), operands: vec![Operand::Id("q0".into())] }] }),
        ("gate-def-no-params".into(), Stmt::Gate { name: "g".into(), params: None, qubits: vec!["q0".into()], body: vec![] }),
        ("def".into(), Stmt::Def { name: "f".into(), params: vec![(ParamTy::Scalar(Ty::Int(Some(bx(int(8))))), "p0".into()), (ParamTy::Qubit(None), "p1".into())], ret: Some(Ty::Bit(None)), body: vec![Stmt::Return(Some(Expr::Measure(Operand::Id("p1".into()))))] }),
        ("def-no-return".into(), Stmt::Def { name: "f".into(), params: vec![], ret: None, body: vec![asg("x", 1)] }),
        ("gate-call".into(), call("h")),
        ("gate-call-args".into(), Stmt::GateCall { mods: vec![], name: "rz".into(), args: Some(vec![Expr::Float("0.5".into())]), operands: vec![qi()] }),
        ("gate-call-2q".into(), Stmt::GateCall { mods: vec![], name: "cx".into(), args: None, operands: vec![q(), Operand::Hw("$1".into())] }),
        ("modified-gate-call".into(), Stmt::GateCall { mods: vec![Modifier::Inv, Modifier::Pow(int(2)), Modifier::Ctrl(None), Modifier::NegCtrl(Some(int(2)))], name: "x".into(), args: None, operands: vec![q(), Operand::Id("r".into())] }),
        ("gphase".into(), Stmt::GPhase { mods: vec![], arg: id("a"), operands: vec![] }),
        ("modified-gphase-operands!".into(), Stmt::GPhase { mods: vec![Modifier::Ctrl(None)], arg: id("a"), operands: vec![q()] }),
        ("inv-gphase".into(), Stmt::GPhase { mods: vec![Modifier::Inv], arg: id("a"), operands: vec![] }),
        ("measure".into(), Stmt::MeasureStmt(q())),
        ("measure-assign".into(), Stmt::Assign { target: LValue::Id("c".into()), op: AssignOp::Assign, value: Expr::Measure(qi()) }),
        ("reset".into(), Stmt::Reset(q())),
        ("barrier".into(), Stmt::Barrier(vec![q(), qi()])),
        ("barrier-empty".into(), Stmt::Barrier(vec![])),
        ("delay".into(), Stmt::Delay(Expr::Timing("10".into(), false, "ns".into(), false), vec![q()])),
        ("delay-no-operands".into(), Stmt::Delay(Expr::Timing("2.5".into(), true, "us".into(), false), vec![])),
        ("if-block".into(), Stmt::If { cond: id("a"), then: blk(vec![asg("x", 1)]), els: None }),
        ("if-single".into(), Stmt::If { cond: id("a"), then: sgl(asg("x", 1)), els: None }),
        ("if-else-block-block".into(), Stmt::If { cond: id("a"), then: blk(vec![asg("x", 1)]), els: Some(blk(vec![asg("y", 2)])) }),
        ("if-else-single-single".into(), Stmt::If { cond: id("a"), then: sgl(asg("x", 1)), els: Some(sgl(asg("y", 2))) }),
        ("if-else-single-block".into(), Stmt::If { cond: id("a"), then: sgl(asg("x", 1)), els: Some(blk(vec![asg("y", 2)])) }),
        ("if-else-block-single".into(), Stmt::If { cond: id("a"), then: blk(vec![asg("x", 1)]), els: Some(sgl(asg("y", 2))) }),
        ("if-else-if".into(), Stmt::If { cond: id("a"), then: blk(vec![asg("x", 1)]), els: Some(sgl(Stmt::If { cond: id("b"), then: blk(vec![asg("y", 2)]), els: Some(blk(vec![asg("z", 3)])) })) }),
        ("if-else-gatecalls".into(), Stmt::If { cond: id("a"), then: sgl(call("h")), els: Some(sgl(call("x"))) }),
        ("while-block".into(), Stmt::While { cond: id("a"), body: blk(vec![asg("x", 1), Stmt::Break]) }),
        ("while-single".into(), Stmt::While { cond: id("a"), body: sgl(call("h")) }),
        ("for-range-block".into(), Stmt::For { ty: Ty::Int(None), var: "i".into(), iter: ForIter::Range(int(0), None, int(3)), body: blk(vec![call("h"), Stmt::Continue]) }),
        ("for-range-step-single".into(), Stmt::For { ty: Ty::UInt(Some(bx(int(8)))), var: "i".into(), iter: ForIter::Range(int(0), Some(int(2)), int(8)), body: sgl(asg("x", 1)) }),
        ("for-set".into(), Stmt::For { ty: Ty::Int(None), var: "i".into(), iter: ForIter::Set(vec![int(1), int(2)]), body: blk(vec![]) }),
        ("for-expr".into(), Stmt::For { ty: Ty::Int(None), var: "i".into(), iter: ForIter::Expr(id("arr")), body: blk(vec![call("h")]) }),
        ("for-expr-single-assign!".into(), Stmt::For { ty: Ty::Int(None), var: "i".into(), iter: ForIter::Expr(id("arr")), body: sgl(asg("x", 1)) }),
        ("for-expr-single-gatecall!".into(), Stmt::For { ty: Ty::Int(None), var: "i".into(), iter: ForIter::Expr(id("arr")), body: sgl(call("h")) }),
        ("switch".into(), Stmt::Switch { control: id("a"), cases: vec![(vec![int(1), int(2)], vec![asg("x", 1)]), (vec![int(3)], vec![])], default: Some(vec![asg("y", 2)]) }),
        ("switch-no-default".into(), Stmt::Switch { control: id("a"), cases: vec![(vec![int(1)], vec![asg("x", 1)])], default: None }),
        ("break".into(), Stmt::Break),
        ("continue".into(), Stmt::Continue),
        ("end".into(), Stmt::End),
        ("return".into(), Stmt::Return(None)),
        ("return-value".into(), Stmt::Return(Some(id("a")))),
        ("assign".into(), asg("x", 1)),
        ("assign-indexed".into(), Stmt::Assign { target: LValue::Indexed("x".into(), vec![Index::List(vec![IndexItem::Expr(int(0))])]), op: AssignOp::Assign, value: id("b") }),
        ("expr-stmt-call".into(), Stmt::ExprStmt(Expr::Call("f".into(), vec![id("a")]))),
        ("expr-stmt-binop".into(), Stmt::ExprStmt(Expr::Bin(BinOp::Add, bx(id("a")), bx(id("b"))))),
        ("expr-stmt-paren".into(), Stmt::ExprStmt(Expr::Paren(bx(id("a"))))),
        ("expr-stmt-paren-binop".into(), Stmt::ExprStmt(Expr::Bin(BinOp::Mul, bx(Expr::Paren(bx(Expr::Bin(BinOp::Add, bx(id("a")), bx(id("b")))))), bx(id("c"))))),
        ("expr-stmt-neg".into(), Stmt::ExprStmt(Expr::Un(UnOp::Neg, bx(id("y"))))),
        ("expr-stmt-not".into(), Stmt::ExprStmt(Expr::Un(UnOp::Not, bx(id("y"))))),
        ("expr-stmt-bitnot".into(), Stmt::ExprStmt(Expr::Un(UnOp::BitNot, bx(id("y"))))),
        ("expr-stmt-literal".into(), Stmt::ExprStmt(int(5))),
        ("expr-stmt-indexed".into(), Stmt::ExprStmt(Expr::IndexedId("x".into(), vec![Index::List(vec![IndexItem::Expr(int(0))])]))),
        ("pragma".into(), Stmt::Pragma("pragma user x y".into())),
        ("hash-pragma".into(), Stmt::Pragma("#pragma z".into())),
        ("annotated-decl".into(), Stmt::Annotated(vec!["@bind a".into()], Box::new(Stmt::ClassicalDecl { konst: false, ty: Ty::Int(None), name: "x".into(), init: None }))),
        ("annotated-gate-call".into(), Stmt::Annotated(vec!["@a".into(), "@b c d".into()], Box::new(call("h")))),
        ("include".into(), Stmt::Include("stdgates.inc".into())),
        ("version".into(), Stmt::Version("3.0".into())),
        ("block".into(), Stmt::Block(vec![asg("x", 1)])),
    ];
    for op in [BinOp::Add, BinOp::Sub, BinOp::Mul, BinOp::Div, BinOp::Rem, BinOp::BitAnd, BinOp::BitOr, BinOp::BitXor, BinOp::Shl, BinOp::Shr] {
        v.push((format!("compound-assign{}=", op.text()), Stmt::Assign { target: LValue::Id("x".into()), op: AssignOp::Compound(op), value: id("b") }));
    }
    v
}

pub fn body_positions() -> Vec<(&'static str, Box<dyn Fn(Stmt) -> Vec<Stmt> + Sync + Send>)> {
    let decl = || Stmt::ClassicalDecl { konst: false, ty: Ty::Int(None), name: "w".into(), init: None };
    let es = || Stmt::ExprStmt(Expr::Call("f".into(), vec![]));
    let mut v: Vec<(&'static str, Box<dyn Fn(Stmt) -> Vec<Stmt> + Sync + Send>)> = vec![];
    v.push(("file-first", Box::new(|s| vec![s])));
    v.push(("file-after-item", Box::new(move |s| vec![decl(), s])));
    v.push(("file-after-expr-stmt", Box::new(move |s| vec![es(), s])));
    v.push(("file-after-version", Box::new(|s| vec![Stmt::Version("3".into()), s])));
    v.push(("file-before-item", Box::new(move |s| vec![s, decl()])));
    v.push(("file-after-bare-block", Box::new(move |s| vec![Stmt::Block(vec![decl()]), s])));
    v.push(("file-after-if-else", Box::new(move |s| vec![Stmt::If { cond: Expr::Bool(true), then: Body::Block(vec![]), els: Some(Body::Block(vec![decl()])) }, s])));
    v.push(("file-after-while-single", Box::new(move |s| vec![Stmt::While { cond: Expr::Bool(false), body: Body::Single(Box::new(Stmt::Break)) }, s])));
    v.push(("gate-body", Box::new(|s| vec![Stmt::Gate { name: "g".into(), params: None, qubits: vec!["q".into()], body: vec![s] }])));
    v.push(("def-body", Box::new(|s| vec![Stmt::Def { name: "f".into(), params: vec![], ret: None, body: vec![s] }])));
    v.push(("if-then-block", Box::new(|s| vec![Stmt::If { cond: id("c"), then: Body::Block(vec![s]), els: None }])));
    v.push(("if-then-single", Box::new(|s| vec![Stmt::If { cond: id("c"), then: Body::Single(Box::new(s)), els: None }])));
    v.push(("else-block", Box::new(|s| vec![Stmt::If { cond: id("c"), then: Body::Block(vec![]), els: Some(Body::Block(vec![s])) }])));
    v.push(("else-single", Box::new(|s| vec![Stmt::If { cond: id("c"), then: Body::Block(vec![]), els: Some(Body::Single(Box::new(s))) }])));
    v.push(("while-block", Box::new(|s| vec![Stmt::While { cond: id("c"), body: Body::Block(vec![s]) }])));
    v.push(("while-single", Box::new(|s| vec![Stmt::While { cond: id("c"), body: Body::Single(Box::new(s)) }])));
    v.push(("for-block", Box::new(|s| vec![Stmt::For { ty: Ty::Int(None), var: "i".into(), iter: ForIter::Range(int(0), None, int(1)), body: Body::Block(vec![s]) }])));
    v.push(("for-single", Box::new(|s| vec![Stmt::For { ty: Ty::Int(None), var: "i".into(), iter: ForIter::Set(vec![int(1)]), body: Body::Single(Box::new(s)) }])));
    v.push(("case-body", Box::new(|s| vec![Stmt::Switch { control: id("c"), cases: vec![(vec![int(1)], vec![s])], default: None }])));
    v.push(("default-body", Box::new(|s| vec![Stmt::Switch { control: id("c"), cases: vec![], default: Some(vec![s]) }])));
    v.push(("bare-block", Box::new(|s| vec![Stmt::Block(vec![s])])));
    v
}

/// Is `form` a statement that OpenQASM allows in `pos`? (definitions and declarations of
/// gates/subroutines/qubits/includes/version only at file level; single-statement bodies take
/// no declarations; dangling-else shapes are excluded)
fn stmt_allowed(form: &str, s: &Stmt, pos: &str) -> bool {
    let file = pos.starts_with("file-");
    // forms marked `!` exercise a listed known finding: one position only
    if form.ends_with('!') && pos != "file-first" {
        return false;
    }
    let global_only = matches!(s, Stmt::Gate { .. } | Stmt::Def { .. } | Stmt::Include(_) | Stmt::Version(_) | Stmt::QubitDecl { .. } | Stmt::HwQubitDecl(_) | Stmt::OldDecl { .. } | Stmt::IoDecl { .. } | Stmt::IoArrayDecl { .. } | Stmt::ArrayDecl { .. });
    if global_only && !file {
        return false;
    }
    if matches!(s, Stmt::Version(_)) && pos != "file-first" && pos != "file-before-item" {
        return false;
    }
    let single = pos.ends_with("-single");
    if single {
        if matches!(s, Stmt::ClassicalDecl { .. } | Stmt::Alias { .. } | Stmt::Annotated(..) | Stmt::Pragma(_) | Stmt::Empty | Stmt::Block(_)) {
            return false;
        }
        // `if (c) if (a) x; else y;` : the else would bind to the inner if
        if pos == "if-then-single" && form.starts_with("if") {
            return false;
        }
    }
    if pos == "gate-body" && !matches!(s, Stmt::GateCall { .. } | Stmt::GPhase { .. } | Stmt::Barrier(_)) {
        return false;
    }
    if matches!(s, Stmt::Return(_)) && pos != "def-body" {
        return false;
    }
    if matches!(s, Stmt::Break | Stmt::Continue) && !(pos.starts_with("while") || pos.starts_with("for")) {
        return false;
    }
    true
}

pub struct MatrixCase {
    pub key: String,
    pub program: Vec<Stmt>,
}

pub fn matrix_cases() -> Vec<MatrixCase> {
    let mut out = vec![];
    let forms = expr_forms();
    for (pname, pos) in expr_positions() {
        for (fname, f) in &forms {
            // a timing literal is the natural form of a delay designator; everything else goes everywhere
            // a delay takes a duration: literals of other types are not valid programs there
            if pname == "delay-designator"
                && !(["timing-lit", "ident", "paren", "call-0", "call-2", "binary+", "binary-", "binary*", "binary/"].contains(&fname.as_str()) || fname.starts_with("indexed-id"))
            {
                continue;
            }
            out.push(MatrixCase { key: format!("expr={fname}@{pname}"), program: vec![pos(f.clone())] });
        }
    }
    let int_forms: Vec<(String, Expr)> = vec![
        ("int-lit".into(), int(8)),
        ("hex-lit".into(), Expr::Int("0x10".into())),
        ("ident".into(), id("n")),
        ("paren".into(), Expr::Paren(bx(int(8)))),
        ("binary+".into(), Expr::Bin(BinOp::Add, bx(id("n")), bx(int(1)))),
        ("binary*".into(), Expr::Bin(BinOp::Mul, bx(int(2)), bx(id("n")))),
        ("binary<<".into(), Expr::Bin(BinOp::Shl, bx(int(1)), bx(int(3)))),
        ("call".into(), Expr::Call("f".into(), vec![int(1)])),
    ];
    for (pname, pos) in designator_positions() {
        for (fname, f) in &int_forms {
            out.push(MatrixCase { key: format!("expr={fname}@{pname}"), program: vec![pos(f.clone())] });
        }
    }
    let sforms = stmt_forms();
    for (pname, pos) in body_positions() {
        for (fname, s) in &sforms {
            if !stmt_allowed(fname, s, pname) {
                continue;
            }
            out.push(MatrixCase { key: format!("stmt={fname}@{pname}"), program: pos(s.clone()) });
        }
    }
    out
}

pub fn run_c04(ctx: &RunCtx) {
    ctx.set_rule("programs derived from the reference syntax (DESIGN.md §5.1) by a depth/size-bounded generator, printed with exactly the parentheses the OpenQASM 3 table requires plus explicit redundant ones, in three layouts (minimal, spaced, wild trivia with comments/CR LF/blank lines); deterministic context matrix: every expression form in every expression position and every statement form in every body position. non-trivial = >=3 statements or nesting >=2; distinct by token sequence");
    ctx.assume("the reference syntax only contains constructs with an explicit production in the repository's ungrammar/grammar; avoidance switches keep the random search out of regions covered by listed known findings (counted in the evidence)");
    // deterministic matrix, switches off
    let cases = matrix_cases();
    ctx.par_units(cases.len(), |i, st| {
        let c = &cases[i];
        for (si, style) in [Style::Minimal, Style::Spaced].iter().enumerate() {
            let seed = [0u32; 0];
            let mut src = Src::new(&seed);
            let pr = print_program(&mut src, &c.program, *style);
            let mut fails = vec![];
            // one key per (form class, position): all 19 binary operators share a class
            // (the long chains and precedence ladders are binary expressions too)
            let ckey = if c.key.starts_with("expr=binary") || c.key.starts_with("expr=chain") || c.key.starts_with("expr=ladder") {
                let at = c.key.find('@').unwrap_or(c.key.len());
                format!("expr=binary{}", &c.key[at..])
            } else {
                c.key.clone()
            };
            let key = format!("C04:matrix:{ckey}");
            check_accept(&pr, &mut fails, &|_, _, _, msg| format!("{key}:{msg}"));
            let mut rep = CaseReport::default();
            rep.failures = fails;
            rep.class("matrix");
            rep.nontrivial = Some(fnv64(pr.text.as_bytes()));
            if si == 0 && i % 97 == 0 {
                rep.sample = Some(pr.text.clone());
            }
            ctx.eval_local("C04", st, rep);
        }
    });
    ctx.mark_exhaustive(format!("context matrix: {} (form, position) programs x 2 layouts", cases.len()));
    // random programs
    let n = ctx.pick(400_000u64, 10_000_000u64);
    ctx.random("program", n, 900, |src| {
        let style = [Style::Minimal, Style::Spaced, Style::Wild, Style::Wild][src.below(4)];
        let mut g = Gen::new(src, Switches::all_on());
        let prog = g.program(10);
        let avoided = g.sw.avoided;
        let pr = print_program(src, &prog, style);
        let mut rep = CaseReport::default();
        rep.avoided = avoided;
        check_accept(&pr, &mut rep.failures, &default_keyer);
        rep.class(format!("{style:?}"));
        let nest = pr.spans.iter().filter(|s| s.is_stmt).map(|s| s.depth).max().unwrap_or(0);
        if prog.len() >= 3 || nest >= 2 {
            let kinds: String = pr.toks.iter().map(|t| t.text.as_str()).collect::<Vec<_>>().join(" ");
            rep.nontrivial = Some(fnv64(kinds.as_bytes()));
        }
        for s in &prog {
            rep.class(format!("stmt:{}", s.kind()));
        }
        rep.sample = Some(pr.text);
        rep
    });
}

// ------------------------------------------------------------------------------------------
// C05
// ------------------------------------------------------------------------------------------

fn canon_head(tokens: &[&str], i: usize) -> String {
    // nearest preceding token that opens a node
    let mut j = i.min(tokens.len().saturating_sub(1));
    loop {
        if tokens.get(j).map(|t| t.starts_with('(') || t.starts_with('[') || t.starts_with('{')).unwrap_or(false) {
            let t = tokens[j];
            // the operator of a binary/unary node is part of the head
            if (t == "(bin" || t == "(un") && j + 1 < tokens.len() {
                return format!("{t} {}", tokens[j + 1]);
            }
            return t.to_string();
        }
        if j == 0 {
            return "-".into();
        }
        j -= 1;
    }
}

fn norm_tok(t: &str) -> String {
    let core = t.trim_matches(|c| c == '(' || c == ')' || c == '[' || c == ']' || c == '{' || c == '}');
    if core.is_empty() {
        return t.to_string();
    }
    if core.chars().next().unwrap().is_ascii_digit() {
        return "N".into();
    }
    t.to_string()
}

/// Key describing the first difference between two canonical renderings.
pub fn diff_key(expected: &str, actual: &str) -> String {
    let e: Vec<&str> = expected.split_whitespace().collect();
    let a: Vec<&str> = actual.split_whitespace().collect();
    let i = e.iter().zip(a.iter()).position(|(x, y)| x != y).unwrap_or(e.len().min(a.len()));
    let he = canon_head(&e, i);
    let ha = canon_head(&a, i);
    let te = e.get(i).map(|t| norm_tok(t)).unwrap_or("<end>".into());
    let ta = a.get(i).map(|t| norm_tok(t)).unwrap_or("<end>".into());
    format!("exp={he}/{te}:got={ha}/{ta}")
}

/// C05 oracle on one printed program. Returns false if the program was not judged (diagnostics).
pub fn check_shape(text: &str, prog: &[Stmt], key_prefix: &str, out: &mut Vec<Failure>) -> bool {
    let expected = r_program_lines(prog);
    let r = guarded(|| {
        let parse = SourceFile::parse(text);
        if !parse.errors().is_empty() {
            return None;
        }
        Some((a_program_lines(&parse.tree()), accessor_disagreements(&parse.syntax_node())))
    });
    match r {
        Err(p) => {
            out.push(Failure::new(format!("C05:{}", panic_key(&p)), json!({"input": {"source": text}, "actual": p.msg})));
            true
        }
        Ok(None) => false,
        Ok(Some((actual, disagreements))) => {
            for (which, what) in disagreements {
                out.push(Failure::new(format!("C05:accessor-disagreement:{which}"), json!({"input": {"source": text, "model": expected}, "actual": what})));
            }
            if actual != expected {
                let i = expected.iter().zip(actual.iter()).position(|(a, b)| a != b).unwrap_or(expected.len().min(actual.len()));
                let e = expected.get(i).cloned().unwrap_or("<no statement>".into());
                let a = actual.get(i).cloned().unwrap_or("<no statement>".into());
                let kind = e.split_whitespace().next().unwrap_or("?").trim_start_matches('(').to_string();
                let key = if key_prefix.is_empty() { format!("C05:shape:{kind}:{}", diff_key(&e, &a)) } else { key_prefix.to_string() };
                out.push(Failure::new(key, json!({"input": {"source": text, "model": expected}, "expected": e, "actual": a})));
            }
            true
        }
    }
}

pub fn replay_c05(v: &serde_json::Value) -> Result<Vec<Failure>, String> {
    let text = v["input"]["source"].as_str().ok_or("no input.source")?;
    let expected: Vec<String> = v["input"]["model"].as_array().ok_or("no input.model")?.iter().filter_map(|x| x.as_str().map(|s| s.to_string())).collect();
    let key = v["key"].as_str().unwrap_or("C05:shape:replay").to_string();
    let mut out = vec![];
    let r = guarded(|| {
        let parse = SourceFile::parse(text);
        if !parse.errors().is_empty() {
            return None;
        }
        Some(a_program_lines(&parse.tree()))
    });
    match r {
        Err(p) => out.push(Failure::new(format!("C05:{}", panic_key(&p)), json!({"input": {"source": text}}))),
        Ok(None) => {}
        Ok(Some(actual)) => {
            if actual != expected {
                out.push(Failure::new(key, json!({"input": {"source": text}, "expected": expected, "actual": actual})));
            }
        }
    }
    Ok(out)
}

fn wrap_contexts(e: &Expr) -> Vec<(&'static str, Vec<Stmt>)> {
    vec![
        ("decl-init", vec![Stmt::ClassicalDecl { konst: false, ty: Ty::Int(None), name: "x".into(), init: Some(e.clone()) }]),
        ("paren-assign", vec![Stmt::Assign { target: LValue::Id("x".into()), op: AssignOp::Assign, value: Expr::Paren(bx(e.clone())) }]),
        ("if-condition", vec![Stmt::If { cond: e.clone(), then: Body::Block(vec![]), els: None }]),
    ]
}

pub fn run_c05(ctx: &RunCtx) {
    ctx.set_rule("(i) exhaustive operator matrix: every ordered pair of the 19 binary operators on both sides, every unary x binary / unary x unary / unary x postfix / cast x binary combination, printed with exactly the required parentheses and with redundant ones, in 3 contexts; (ii) random expression trees to depth 6; (iii) generated programs and the statement-form x body-position matrix for accessor roles. oracle: canonical rendering of the typed AST (through the public accessors) equals the rendering of the model term, and redundant accessors agree with each other (block/single-statement views of if/while/for bodies, loop_body, sub_exprs vs lhs/rhs, operator token vs operator kind and its position between the operands, index base, gate-call name). non-trivial = expression with >=2 operators or statement with >=2 role slots; distinct by model term");
    ctx.assume("the OpenQASM 3 precedence table is transcribed from the language specification: call/index/cast; ** (right); unary; * / %; + -; << >>; < <= > >=; == !=; &; ^; |; &&; ||");
    let a = || id("a");
    let b = || id("b");
    let c = || id("c");
    // (i) operator matrix
    let mut terms: Vec<(String, Expr)> = vec![];
    for outer in BINOPS {
        for inner in BINOPS {
            terms.push((format!("prec:outer={}:inner={}:side=L", outer.text(), inner.text()), Expr::Bin(outer, bx(Expr::Bin(inner, bx(a()), bx(b()))), bx(c()))));
            terms.push((format!("prec:outer={}:inner={}:side=R", outer.text(), inner.text()), Expr::Bin(outer, bx(a()), bx(Expr::Bin(inner, bx(b()), bx(c()))))));
        }
    }
    for u in [UnOp::Neg, UnOp::Not, UnOp::BitNot] {
        for op in BINOPS {
            terms.push((format!("prec:unary={}:of-binary={}", u.text(), op.text()), Expr::Un(u, bx(Expr::Bin(op, bx(a()), bx(b()))))));
            terms.push((format!("prec:binary={}:left-unary={}", op.text(), u.text()), Expr::Bin(op, bx(Expr::Un(u, bx(a()))), bx(b()))));
            terms.push((format!("prec:binary={}:right-unary={}", op.text(), u.text()), Expr::Bin(op, bx(a()), bx(Expr::Un(u, bx(b()))))));
        }
        for u2 in [UnOp::Neg, UnOp::Not, UnOp::BitNot] {
            terms.push((format!("prec:unary={}:of-unary={}", u.text(), u2.text()), Expr::Un(u, bx(Expr::Un(u2, bx(a()))))));
        }
        terms.push((format!("prec:unary={}:of-indexed", u.text()), Expr::Un(u, bx(Expr::IndexedId("a".into(), vec![Index::List(vec![IndexItem::Expr(int(0))])])))));
        terms.push((format!("prec:unary={}:of-call", u.text()), Expr::Un(u, bx(Expr::Call("f".into(), vec![a()])))));
        terms.push((format!("prec:unary={}:of-cast", u.text()), Expr::Un(u, bx(Expr::Cast(Ty::Int(Some(bx(int(8)))), bx(a()))))));
        terms.push((format!("prec:unary={}:of-literal", u.text()), Expr::Un(u, bx(int(3)))));
    }
    for op in BINOPS {
        terms.push((format!("prec:binary={}:left-cast", op.text()), Expr::Bin(op, bx(Expr::Cast(Ty::Int(Some(bx(int(8)))), bx(a()))), bx(b()))));
        terms.push((format!("prec:binary={}:right-cast", op.text()), Expr::Bin(op, bx(a()), bx(Expr::Cast(Ty::Float(None), bx(b()))))));
        terms.push((format!("prec:binary={}:right-indexed", op.text()), Expr::Bin(op, bx(a()), bx(Expr::IndexedId("b".into(), vec![Index::List(vec![IndexItem::Expr(int(0))])])))));
        terms.push((format!("prec:binary={}:left-call", op.text()), Expr::Bin(op, bx(Expr::Call("f".into(), vec![a()])), bx(b()))));
    }
    ctx.par_units(terms.len(), |i, st| {
        let (key, e) = &terms[i];
        for (cname, prog) in wrap_contexts(e) {
            for redundant in [false, true] {
                let prog = if redundant { add_redundant_parens(&prog) } else { prog.clone() };
                let seed = [0u32; 0];
                let mut src = Src::new(&seed);
                let pr = print_program(&mut src, &prog, if redundant { Style::Spaced } else { Style::Minimal });
                let mut fails = vec![];
                let k = if redundant { format!("C05:paren:{key}") } else { format!("C05:{key}") };
                let judged = check_shape(&pr.text, &prog, &k, &mut fails);
                let mut rep = CaseReport::default();
                rep.failures = fails;
                rep.class(format!("operator-matrix/{cname}"));
                rep.discarded = !judged;
                rep.nontrivial = Some(fnv64(pr.text.as_bytes()));
                if i % 131 == 0 && !redundant {
                    rep.sample = Some(pr.text.clone());
                }
                ctx.eval_local("C05", st, rep);
            }
        }
    });
    ctx.mark_exhaustive(format!("operator matrix: {} three-operand terms x 3 contexts x {{minimal, redundant}} parentheses", terms.len()));

    // (iii-a) statement matrix
    let cases = matrix_cases();
    ctx.par_units(cases.len(), |i, st| {
        let c = &cases[i];
        let seed = [0u32; 0];
        let mut src = Src::new(&seed);
        let pr = print_program(&mut src, &c.program, Style::Spaced);
        let mut fails = vec![];
        let judged = check_shape(&pr.text, &c.program, &format!("C05:matrix:{}", c.key), &mut fails);
        let mut rep = CaseReport::default();
        rep.failures = fails;
        rep.discarded = !judged;
        rep.class("context-matrix");
        rep.nontrivial = Some(fnv64(pr.text.as_bytes()));
        ctx.eval_local("C05", st, rep);
    });

    // (ii) random expression trees
    let n = ctx.pick(400_000u64, 10_000_000u64);
    ctx.random("expr-tree", n, 300, |src| {
        let mut sw = Switches::all_on();
        sw.paren_mixed_precedence = false;
        let mut g = Gen::new(src, sw);
        g.max_expr_depth = 6;
        let e = g.expr();
        let prog = vec![Stmt::ClassicalDecl { konst: false, ty: Ty::Int(None), name: "x".into(), init: Some(e.clone()) }];
        let style = [Style::Minimal, Style::Spaced, Style::Wild][src.below(3)];
        let pr = print_program(src, &prog, style);
        let mut rep = CaseReport::default();
        let judged = check_shape(&pr.text, &prog, "", &mut rep.failures);
        rep.discarded = !judged;
        rep.class("expr-tree");
        if count_ops(&e) >= 2 {
            rep.nontrivial = Some(fnv64(r_expr(&e).as_bytes()));
        }
        rep.sample = Some(pr.text);
        rep
    });
    // (iii-b) random programs
    let n = ctx.pick(300_000u64, 5_000_000u64);
    ctx.random("program", n, 900, |src| {
        let style = [Style::Minimal, Style::Spaced, Style::Wild][src.below(3)];
        let mut sw = Switches::all_on();
        sw.paren_mixed_precedence = false;
        let mut g = Gen::new(src, sw);
        let prog = g.program(8);
        let avoided = g.sw.avoided;
        let pr = print_program(src, &prog, style);
        let mut rep = CaseReport::default();
        rep.avoided = avoided;
        let judged = check_shape(&pr.text, &prog, "", &mut rep.failures);
        rep.discarded = !judged;
        rep.class("program");
        for s in &prog {
            rep.class(format!("stmt:{}", s.kind()));
        }
        rep.nontrivial = Some(fnv64(pr.text.as_bytes()));
        rep.sample = Some(pr.text);
        rep
    });
}

fn count_ops(e: &Expr) -> usize {
    match e {
        Expr::Bin(_, l, r) => 1 + count_ops(l) + count_ops(r),
        Expr::Un(_, x) => 1 + count_ops(x),
        Expr::Paren(x) | Expr::Cast(_, x) => count_ops(x),
        Expr::Call(_, a) => a.iter().map(count_ops).sum(),
        Expr::IndexExpr(b, _) => count_ops(b),
        _ => 0,
    }
}

/// Wrap every binary/unary sub-expression in explicit (redundant) parentheses.
fn paren_all(e: &Expr) -> Expr {
    match e {
        Expr::Bin(op, l, r) => Expr::Paren(bx(Expr::Bin(*op, bx(paren_all(l)), bx(paren_all(r))))),
        Expr::Un(op, x) => Expr::Paren(bx(Expr::Un(*op, bx(paren_all(x))))),
        Expr::Cast(t, x) => Expr::Cast(t.clone(), bx(paren_all(x))),
        other => other.clone(),
    }
}

fn add_redundant_parens(prog: &[Stmt]) -> Vec<Stmt> {
    prog.iter()
        .map(|s| match s {
            Stmt::ClassicalDecl { konst, ty, name, init } => Stmt::ClassicalDecl { konst: *konst, ty: ty.clone(), name: name.clone(), init: init.as_ref().map(paren_all) },
            Stmt::Assign { target, op, value } => Stmt::Assign { target: target.clone(), op: op.clone(), value: paren_all(value) },
            Stmt::If { cond, then, els } => Stmt::If { cond: paren_all(cond), then: then.clone(), els: els.clone() },
            other => other.clone(),
        })
        .collect()
}

// ------------------------------------------------------------------------------------------
// C16
// ------------------------------------------------------------------------------------------

/// (kind, trivia-free token text) rendering of a subtree.
fn dump_node(n: &SyntaxNode, out: &mut String) {
    out.push('(');
    out.push_str(&format!("{:?}", n.kind()));
    for ch in n.children_with_tokens() {
        match ch {
            NodeOrToken::Node(c) => {
                out.push(' ');
                dump_node(&c, out);
            }
            NodeOrToken::Token(t) => {
                if !t.kind().is_trivia() {
                    out.push(' ');
                    out.push_str(t.text());
                }
            }
        }
    }
    out.push(')');
}

/// Parse `text`; return None if there are diagnostics, else the rendering of each statement of
/// the file-level list plus stray non-trivia tokens directly under the root.
fn stmts_alone(text: &str) -> Result<Option<Vec<String>>, PanicInfo> {
    guarded(|| {
        let parse = SourceFile::parse(text);
        if !parse.errors().is_empty() {
            return None;
        }
        Some(
            parse
                .tree()
                .statements()
                .map(|s| {
                    let mut o = String::new();
                    dump_node(s.syntax(), &mut o);
                    // the node's own text, trivia included, after a separator
                    o.push('\u{0}');
                    o.push_str(&s.syntax().text().to_string());
                    o
                })
                .collect(),
        )
    })
}

struct Ctx16 {
    name: &'static str,
    open: &'static str,
    close: &'static str,
    /// path to the statement list: sequence of node kinds to descend into (first match)
    path: &'static [&'static str],
}

const CONTEXTS: &[Ctx16] = &[
    Ctx16 { name: "file", open: "", close: "", path: &[] },
    Ctx16 { name: "gate-body", open: "gate g q {\n", close: "\n}", path: &["GATE", "BLOCK_EXPR"] },
    Ctx16 { name: "def-body", open: "def f() {\n", close: "\n}", path: &["DEF", "BLOCK_EXPR"] },
    Ctx16 { name: "if-body", open: "if (c) {\n", close: "\n}", path: &["IF_STMT", "BLOCK_EXPR"] },
    Ctx16 { name: "else-body", open: "if (c) { } else {\n", close: "\n}", path: &["IF_STMT", "BLOCK_EXPR#2"] },
    Ctx16 { name: "while-body", open: "while (c) {\n", close: "\n}", path: &["WHILE_STMT", "BLOCK_EXPR"] },
    Ctx16 { name: "for-body", open: "for int i in [0:1] {\n", close: "\n}", path: &["FOR_STMT", "BLOCK_EXPR"] },
    Ctx16 { name: "case-body", open: "switch (c) { case 1 {\n", close: "\n} }", path: &["SWITCH_CASE_STMT", "CASE_EXPR", "BLOCK_EXPR"] },
    Ctx16 { name: "default-body", open: "switch (c) { default {\n", close: "\n} }", path: &["SWITCH_CASE_STMT", "BLOCK_EXPR"] },
    Ctx16 { name: "bare-block", open: "{\n", close: "\n}", path: &["EXPR_STMT", "BLOCK_EXPR"] },
];

fn descend(root: &SyntaxNode, path: &[&str]) -> Option<SyntaxNode> {
    let mut cur = root.clone();
    for step in path {
        let (kind, nth) = match step.split_once('#') {
            Some((k, n)) => (k, n.parse::<usize>().unwrap_or(1)),
            None => (*step, 1),
        };
        let mut found = None;
        let mut seen = 0;
        for c in cur.children() {
            if format!("{:?}", c.kind()) == kind {
                seen += 1;
                if seen == nth {
                    found = Some(c);
                    break;
                }
            }
        }
        cur = found?;
    }
    Some(cur)
}

fn stmt_kind_of(d: &str) -> String {
    d.trim_start_matches('(').split(|c: char| c == ' ' || c == ')').next().unwrap_or("?").to_string()
}

/// C16 oracle: `parts` are statement texts that parse alone without diagnostics.
pub fn check_compose(parts: &[String], cx: &Ctx16Ref, out: &mut Vec<Failure>) -> bool {
    let ctxd = &CONTEXTS[cx.0];
    let mut alone: Vec<Vec<String>> = vec![];
    for p in parts {
        match stmts_alone(p) {
            Ok(Some(v)) => alone.push(v),
            Ok(None) => return false, // precondition not met: not a case
            Err(_) => return false,   // crash: C01's subject
        }
    }
    let joined = format!("{}{}{}", ctxd.open, parts.join("\n"), ctxd.close);
    let first_kinds: Vec<String> = alone.iter().map(|v| v.first().map(|d| stmt_kind_of(d)).unwrap_or("<none>".into())).collect();
    let r = guarded(|| {
        let parse = SourceFile::parse(&joined);
        let errs: Vec<(usize, String)> = parse.errors().iter().map(|e| (e.range().start().into(), e.message().to_string())).collect();
        let root = parse.syntax_node();
        let list: Option<Vec<String>> = descend(&root, ctxd.path).map(|n| {
            n.children()
                .filter(|c| oq3_syntax::ast::Stmt::can_cast(c.kind()))
                .map(|c| {
                    let mut o = String::new();
                    dump_node(&c, &mut o);
                    o.push('\u{0}');
                    o.push_str(&c.text().to_string());
                    o
                })
                .collect()
        });
        (errs, list)
    });
    let detail = |actual: String, expected: String| json!({"input": {"parts": parts, "context": ctxd.name, "source": joined}, "expected": expected, "actual": actual});
    match r {
        Err(p) => {
            out.push(Failure::new(format!("C16:{}", panic_key(&p)), detail(p.msg.clone(), String::new())));
        }
        Ok((errs, list)) => {
            let expected: Vec<String> = alone.iter().flatten().cloned().collect();
            if let Some((off, msg)) = errs.first() {
                // which part does the offset fall into?
                let mut pos = ctxd.open.len();
                let mut idx = parts.len().saturating_sub(1);
                for (i, p) in parts.iter().enumerate() {
                    if *off < pos + p.len() + 1 {
                        idx = i;
                        break;
                    }
                    pos += p.len() + 1;
                }
                let prev = if idx > 0 { first_kinds[idx - 1].clone() } else { "<start>".into() };
                out.push(Failure::new(
                    if ctxd.name == "file" {
                        format!("C16:{}:diagnostic:{}:after={}:{}", ctxd.name, first_kinds[idx], prev, norm_msg(msg))
                    } else {
                        format!("C16:{}:diagnostic:{}:{}", ctxd.name, first_kinds[idx], norm_msg(msg))
                    },
                    detail(format!("{} diagnostics, first at byte {off}: {msg}", errs.len()), "no diagnostics".into()),
                ));
            } else {
                match list {
                    None => out.push(Failure::new(format!("C16:{}:statement-list-not-found", ctxd.name), detail(String::new(), String::new()))),
                    Some(got) => {
                        let shape = |v: &[String]| -> Vec<String> { v.iter().map(|d| d.split('\u{0}').next().unwrap_or("").to_string()).collect() };
                        let (got_full, expected_full) = (got, expected);
                        let (got, expected) = (shape(&got_full), shape(&expected_full));
                        if got == expected && got_full != expected_full {
                            // same trees, but a statement node covers other text (trivia pulled into
                            // or pushed out of the node by its neighbours)
                            let i = got_full.iter().zip(expected_full.iter()).position(|(a, b)| a != b).unwrap_or(0);
                            let text_of = |d: &String| d.split('\u{0}').nth(1).unwrap_or("").to_string();
                            out.push(Failure::new(
                                format!("C16:{}:statement-text-differs:{}", ctxd.name, stmt_kind_of(&expected[i])),
                                detail(text_of(&got_full[i]), text_of(&expected_full[i])),
                            ));
                        }
                        if got != expected {
                            let i = got.iter().zip(expected.iter()).position(|(a, b)| a != b).unwrap_or(got.len().min(expected.len()));
                            let e = expected.get(i).cloned().unwrap_or("<none>".into());
                            let g = got.get(i).cloned().unwrap_or("<none>".into());
                            let prev = if i > 0 { stmt_kind_of(&expected[i - 1]) } else { "<start>".into() };
                            // first differing token of the two dumps
                            let (et, gt): (Vec<&str>, Vec<&str>) = (e.split_whitespace().collect(), g.split_whitespace().collect());
                            let di = et.iter().zip(gt.iter()).position(|(a, b)| a != b).unwrap_or(et.len().min(gt.len()));
                            let sig = format!("{}/{}", et.get(di).map(|t| norm_tok(t)).unwrap_or("<end>".into()), gt.get(di).map(|t| norm_tok(t)).unwrap_or("<end>".into()));
                            let sig = if stmt_kind_of(&e) == stmt_kind_of(&g) { format!(":{sig}") } else { String::new() };
                            out.push(Failure::new(
                                // the predecessor only matters at file level (item mode vs statement loop)
                                if ctxd.name == "file" {
                                    format!("C16:{}:differs:{}->{}{sig}:after={}", ctxd.name, stmt_kind_of(&e), stmt_kind_of(&g), prev)
                                } else {
                                    format!("C16:{}:differs:{}->{}{sig}", ctxd.name, stmt_kind_of(&e), stmt_kind_of(&g))
                                },
                                detail(g, e),
                            ));
                        }
                    }
                }
            }
        }
    }
    true
}

pub struct Ctx16Ref(pub usize);

pub fn replay_c16(v: &serde_json::Value) -> Result<Vec<Failure>, String> {
    let parts: Vec<String> = v["input"]["parts"].as_array().ok_or("no input.parts")?.iter().filter_map(|x| x.as_str().map(|s| s.to_string())).collect();
    let cname = v["input"]["context"].as_str().ok_or("no input.context")?;
    let ci = CONTEXTS.iter().position(|c| c.name == cname).ok_or("unknown context")?;
    let mut out = vec![];
    check_compose(&parts, &Ctx16Ref(ci), &mut out);
    Ok(out)
}

fn stmt_text(s: &Stmt) -> String {
    let seed = [0u32; 0];
    let mut src = Src::new(&seed);
    print_program(&mut src, std::slice::from_ref(s), Style::Spaced).text
}

pub fn run_c16(ctx: &RunCtx) {
    ctx.set_rule("sequences of 2-12 generated statements each of which the implementation parses alone without diagnostics (all statement kinds incl. empty statement, pragmas, annotations), joined by line breaks, at file level and inside gate/def/if/else/while/for/case/default/bare-block bodies; all ordered pairs of the statement forms are enumerated in every context; long sequences of 64-256 ordinary statements check that nothing accumulates over a statement list. oracle: no diagnostics and the context's statement list equals, as (kind, token text) trees, the concatenation of the separately parsed statements. non-trivial = >=2 statements of different kinds; distinct by kind sequence + context");
    ctx.assume("a statement's own parse is taken at file level; statements whose own parse has diagnostics are not cases");
    let mut forms: Vec<(String, String)> = stmt_forms().into_iter().map(|(n, s)| (n, stmt_text(&s))).collect();
    // the empty statement parses alone without diagnostics (it is not part of the C04 reference syntax)
    forms.push(("empty".to_string(), ";".to_string()));
    // a bare annotation line and a bare pragma line are statements of their own
    // brace-less control flow whose body is the empty statement
    forms.push(("while-empty-body".to_string(), "while ( a ) ;".to_string()));
    forms.push(("for-empty-body".to_string(), "for int i in [ 0 : 3 ] ;".to_string()));
    forms.push(("if-empty-body".to_string(), "if ( a ) ;".to_string()));
    forms.push(("if-else-empty-body".to_string(), "if ( a ) x = 1 ; else ;".to_string()));
    forms.push(("two-empty".to_string(), "; ;".to_string()));
    // brace-less control flow whose body is a bare annotation line
    forms.push(("while-annotation-body".to_string(), "while ( a ) @note a\n".to_string()));
    forms.push(("if-annotation-body".to_string(), "if ( a ) @x\n".to_string()));
    forms.push(("for-annotation-body".to_string(), "for int i in [ 0 : 3 ] @loop i\n".to_string()));
    forms.push(("if-else-annotation-body".to_string(), "if ( a ) x = 1 ; else @y z\n".to_string()));
    forms.push(("while-pragma-body".to_string(), "while ( a ) pragma p q\n".to_string()));
    forms.push(("bare-annotation".to_string(), "@note a b\n".to_string()));
    forms.push(("bare-annotation-2".to_string(), "@x\n".to_string()));
    let nf = forms.len();
    // all ordered pairs x contexts
    ctx.par_units(nf, |i, st| {
        for j in 0..nf {
            for ci in 0..CONTEXTS.len() {
                heartbeat_tick();
                let parts = vec![forms[i].1.clone(), forms[j].1.clone()];
                let mut fails = vec![];
                let judged = check_compose(&parts, &Ctx16Ref(ci), &mut fails);
                let mut rep = CaseReport::default();
                rep.failures = fails;
                rep.discarded = !judged;
                rep.class(format!("pair/{}", CONTEXTS[ci].name));
                if i != j {
                    rep.nontrivial = Some(fnv64(format!("{i},{j},{ci}").as_bytes()));
                }
                if (i * nf + j) % 211 == 0 && ci == 1 {
                    rep.sample = Some(format!("{}{}\n{}{}", CONTEXTS[ci].open, parts[0], parts[1], CONTEXTS[ci].close));
                }
                ctx.eval_local("C16", st, rep);
            }
        }
    });
    ctx.mark_exhaustive(format!("all ordered pairs of {nf} statement forms x {} contexts", CONTEXTS.len()));
    // random sequences (alias and empty statements excluded: covered by the pair enumeration)
    let n = ctx.pick(300_000u64, 5_000_000u64);
    ctx.random("sequence", n, 900, |src| {
        let ci = src.below(CONTEXTS.len());
        let len = 2 + src.below(11);
        let mut parts = vec![];
        let mut kinds = vec![];
        let mut avoided = 0;
        for _ in 0..len {
            let style = [Style::Minimal, Style::Spaced, Style::Wild][src.below(3)];
            let mut g = Gen::new(src, Switches::all_on());
            g.max_stmt_depth = 2;
            let s = g.stmt(0, true, true, true);
            if matches!(s, Stmt::Alias { .. } | Stmt::Empty) {
                avoided += 1;
                continue;
            }
            kinds.push(s.kind());
            let t = print_program(src, std::slice::from_ref(&s), style).text;
            parts.push(t);
        }
        let mut rep = CaseReport::default();
        rep.avoided = avoided;
        if parts.len() < 2 {
            rep.discarded = true;
            return rep;
        }
        let judged = check_compose(&parts, &Ctx16Ref(ci), &mut rep.failures);
        rep.discarded = !judged;
        rep.class(CONTEXTS[ci].name);
        let mut ks = kinds.clone();
        ks.dedup();
        if ks.len() >= 2 {
            rep.nontrivial = Some(fnv64(format!("{kinds:?}{ci}").as_bytes()));
        }
        rep.sample = Some(parts.join("\n"));
        rep
    });
    // long sequences (64-256 statements of the ordinary kinds): state that accumulates over a
    // statement list must not change the parse of a later statement
    let long_forms: Vec<String> = forms
        .iter()
        .filter(|(n, _)| {
            ["decl", "decl-init", "const-decl", "qubit-decl", "gate-call", "gate-call-args", "gate-call-2q", "modified-gate-call", "measure", "measure-assign", "reset", "barrier", "delay", "if-block", "if-else-block-block", "while-block", "for-range-block", "switch", "assign", "assign-indexed", "expr-stmt-call", "expr-stmt-paren", "expr-stmt-neg", "gphase", "def", "gate-def", "return-value", "break"].contains(&n.as_str())
                || n.starts_with("compound-assign")
        })
        .map(|(_, t)| t.clone())
        .collect();
    let n = ctx.pick(3_000u64, 60_000u64);
    ctx.random("long-sequence", n, 300, |src| {
        let ci = src.below(CONTEXTS.len());
        let len = 64 + src.below(193);
        // mostly one recurring kind with others mixed in
        let main = src.below(long_forms.len());
        let parts: Vec<String> = (0..len).map(|_| if src.chance(2, 3) { long_forms[main].clone() } else { long_forms[src.below(long_forms.len())].clone() }).collect();
        let mut rep = CaseReport::default();
        let judged = check_compose(&parts, &Ctx16Ref(ci), &mut rep.failures);
        rep.discarded = !judged;
        rep.class(format!("long/{}", CONTEXTS[ci].name));
        rep.nontrivial = Some(fnv64(format!("{main}/{len}/{ci}/{}", parts.len()).as_bytes()));
        rep
    });
}
