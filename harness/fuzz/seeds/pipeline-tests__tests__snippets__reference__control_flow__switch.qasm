// lex: ok
// parse: ok
// sema: ok

include "stdgates.inc";

int i = 1;
int j = 2;
int k = 3;

switch (i) {
  case 0 {
    x $0;
  }
  case 1, 2 {
    x $0;
    z $1;
  }
  case 3, {
  }
  default {
    cx $0, $1;
  }
}

switch (i + j) {
  default {
    switch (2 * k) {
      case 0 {
        x $0;
      }
      default {
        z $0;
      }
    }
  }
}
