//! C15 (well-formed lexemes are classified correctly) and the lexical half of C11.

use crate::engine::*;
use crate::lexgen::*;
use oq3_parser::LexedStr;
use serde_json::json;

fn nontrivia(text: &str) -> Result<(Vec<(String, String)>, Vec<(usize, usize, String)>), PanicInfo> {
    guarded(|| {
        let lexed = LexedStr::new(text);
        let mut v = vec![];
        for i in 0..lexed.len() {
            let k = lexed.kind(i);
            if !k.is_trivia() {
                v.push((format!("{k:?}"), lexed.text(i).to_string()));
            }
        }
        let errs = lexed
            .errors()
            .map(|(i, m)| {
                let r = lexed.text_range(i);
                (r.start, r.end, m.to_string())
            })
            .collect();
        (v, errs)
    })
}

/// C15 oracle on one rendering of a well-formed sequence.
pub fn check_wellformed(text: &str, expect: &[(String, String)], classes: &str, out: &mut Vec<Failure>) {
    match nontrivia(text) {
        Err(p) => out.push(Failure::new(format!("C15:{}", panic_key(&p)), json!({"input": {"source": text}, "actual": p.msg}))),
        Ok((got, errs)) => {
            if got != expect {
                // key: the first differing expected lexeme kind and what was produced instead
                let i = got.iter().zip(expect.iter()).position(|(a, b)| a != b).unwrap_or(got.len().min(expect.len()));
                let e = expect.get(i).map(|x| x.0.as_str()).unwrap_or("<end>");
                let g = got.get(i).map(|x| x.0.as_str()).unwrap_or("<end>");
                let prev = if i > 0 { expect[i - 1].0.as_str() } else { "<start>" };
                out.push(Failure::new(
                    format!("C15:misclassified:expected={e}:got={g}:after={prev}"),
                    json!({"input": {"source": text, "expect": expect}, "expected": expect.get(i), "actual": got.get(i), "classes": classes}),
                ));
            }
            if let Some(e) = errs.first() {
                let tok = &text[e.0..e.1];
                out.push(Failure::new(
                    format!("C15:lexical-error-on-wellformed:{}", clip(&e.2, 60)),
                    json!({"input": {"source": text, "expect": expect}, "actual": format!("{}..{} {:?}: {}", e.0, e.1, tok, e.2), "classes": classes}),
                ));
            }
        }
    }
}

pub fn replay_c15(v: &serde_json::Value) -> Result<Vec<Failure>, String> {
    let text = v["input"]["source"].as_str().ok_or("no input.source")?;
    let expect: Vec<(String, String)> = v["input"]["expect"]
        .as_array()
        .ok_or("no input.expect")?
        .iter()
        .map(|p| (p[0].as_str().unwrap_or("").to_string(), p[1].as_str().unwrap_or("").to_string()))
        .collect();
    let mut out = vec![];
    check_wellformed(text, &expect, "replay", &mut out);
    Ok(out)
}

pub fn run_c15(ctx: &RunCtx) {
    ctx.set_rule("sequences of 1-40 well-formed lexemes (identifiers incl. Unicode and look-alikes, 43 keywords, 9 types, $n, _, integers in 4 radices and both prefix cases with single underscores, 6 float shapes, literal+unit (7 units, attached or separated), bit strings, strings, 26 punctuation characters, pragma/annotation lines, version header) joined by separators from a conservative fusion table (nothing / blanks / newlines / CR LF / unicode blanks / line and nested block comments); exhaustive adjacency sweep of 100 representative lexemes x 5 separators. non-trivial = >=2 lexemes and >=1 from a look-ahead class; distinct by spelling");
    ctx.assume("spellings follow the OpenQASM 3 lexical grammar; separators over-approximate (a separator is inserted whenever two spellings could fuse), line lexemes are followed by LF, the version header by a blank");
    // adjacency sweep (deterministic, every tier)
    let reps = representatives();
    let seps: &[&str] = &["", " ", "\n", "\t", "/**/"];
    let n = reps.len();
    ctx.par_units(n, |i, st| {
        for j in 0..n {
            for sep in seps {
                heartbeat_tick();
                let (a, b) = (&reps[i], &reps[j]);
                let mut s = String::new();
                s.push_str(&a.spelling);
                let joinable = can_join(a, b);
                let mut sep = sep.to_string();
                if a.last == Cls::Line {
                    sep = format!("\n{sep}");
                } else if a.last == Cls::Version {
                    sep = format!(" {sep}");
                } else if !joinable && sep.is_empty() {
                    continue;
                } else if a.last == Cls::Punct('/') && sep.starts_with('/') {
                    continue;
                }
                s.push_str(&sep);
                s.push_str(&b.spelling);
                if b.last == Cls::Version || b.last == Cls::Line {
                    s.push('\n');
                }
                let mut expect = a.expect.clone();
                expect.extend(b.expect.iter().cloned());
                let mut fails = vec![];
                check_wellformed(&s, &expect, &format!("{}+{}", a.class, b.class), &mut fails);
                let mut rep = CaseReport::default();
                rep.failures = fails;
                rep.class("adjacency");
                rep.nontrivial = Some(fnv64(s.as_bytes()));
                if (i * n + j) % 499 == 0 && sep.is_empty() {
                    rep.sample = Some(s.clone());
                }
                ctx.eval_local("C15", st, rep);
            }
        }
    });
    ctx.mark_exhaustive(format!("adjacency sweep: {n} x {n} representative lexemes x 5 separators"));
    // single lexemes of every table entry
    {
        let mut st = Stats::default();
        let mut singles: Vec<Lexeme> = reps.clone();
        for k in KEYWORDS {
            singles.push(Lexeme { spelling: k.to_string(), expect: vec![(format!("{}_KW", k.to_uppercase()), k.to_string())], first: Cls::Word, last: Cls::Word, class: "keyword", lookahead_class: false, malformed: false, swallows: false });
        }
        for k in TYPES {
            singles.push(Lexeme { spelling: k.to_string(), expect: vec![(format!("{}_TY", k.to_uppercase()), k.to_string())], first: Cls::Word, last: Cls::Word, class: "type", lookahead_class: false, malformed: false, swallows: false });
        }
        for l in singles {
            for (pre, post) in [("", ""), (" ", " "), ("\n", "\n"), ("", ";"), ("(", ")")] {
                let mut s = format!("{pre}{}", l.spelling);
                let mut expect = vec![];
                if pre == "(" {
                    expect.push(("L_PAREN".to_string(), "(".to_string()));
                }
                expect.extend(l.expect.iter().cloned());
                if l.last == Cls::Line {
                    s.push('\n');
                    if !post.trim().is_empty() { s.push_str(post); }
                } else if l.last == Cls::Version && post.is_empty() {
                    s.push(' ');
                } else if l.last == Cls::Version && post == ")" {
                    s.push_str(" )");
                } else if l.last == Cls::Word && false {
                } else {
                    s.push_str(post);
                }
                if post == ";" { expect.push(("SEMICOLON".to_string(), ";".to_string())); }
                if post == ")" { expect.push(("R_PAREN".to_string(), ")".to_string())); }
                let mut fails = vec![];
                check_wellformed(&s, &expect, l.class, &mut fails);
                let mut rep = CaseReport::default();
                rep.failures = fails;
                rep.class("single");
                ctx.eval_local("C15", &mut st, rep);
            }
        }
        ctx.merge_stats(st);
    }
    // random sequences, two layouts each
    let n = ctx.pick(1_000_000u64, 30_000_000u64);
    ctx.random("sequence", n, 700, |src| {
        let seq = gen_sequence(src, 40);
        let mut rep = CaseReport::default();
        let classes: Vec<&str> = seq.iter().map(|l| l.class).collect();
        let cls = classes.join(" ");
        for layout in 0..2 {
            let minimal = layout == 1 && src.chance(1, 3);
            let r = render(src, &seq, minimal);
            let mut fails = vec![];
            check_wellformed(&r.text, &r.expect, &cls, &mut fails);
            rep.failures.extend(fails);
            if layout == 0 {
                if seq.len() >= 2 && seq.iter().any(|l| l.lookahead_class) {
                    rep.nontrivial = Some(fnv64(r.text.as_bytes()));
                }
                rep.sample = Some(r.text.clone());
            }
        }
        for l in &seq {
            rep.class(l.class);
        }
        rep
    });
}

/// C11 lexical half: malformed lexemes spliced into well-formed sequences.
pub fn check_malformed(text: &str, bad: &[(usize, usize, &'static str)], out: &mut Vec<Failure>) {
    match nontrivia(text) {
        Err(p) => out.push(Failure::new(format!("C11:{}", panic_key(&p)), json!({"input": {"source": text}, "actual": p.msg}))),
        Ok((_got, errs)) => {
            for (s, e, label) in bad {
                let hit = errs.iter().any(|(a, b, _)| a >= s && b <= e && b > a);
                if !hit {
                    out.push(Failure::new(
                        format!("C11:lex:no-diagnostic-on:{label}"),
                        json!({"input": {"source": text, "bad_spans": bad.iter().map(|b| json!([b.0, b.1, b.2])).collect::<Vec<_>>()}, "actual": format!("errors: {errs:?}"), "expected": format!("a lexical error inside {s}..{e}")}),
                    ));
                }
            }
        }
    }
}

/// The gate between lexing and parsing (shared with the pipeline half in c11.rs).
pub fn check_lex_gate(text: &str, out: &mut Vec<Failure>) {
    let r = guarded(|| {
        let lexed = LexedStr::new(text);
        let lex_errs: Vec<(usize, usize)> = lexed.errors().map(|(i, _)| { let r = lexed.text_range(i); (r.start, r.end) }).collect();
        let parse = oq3_syntax::SourceFile::parse_check_lex(text);
        let mut fails: Vec<(String, String)> = vec![];
        if parse.have_parse() != lex_errs.is_empty() {
            fails.push(("C11:gate:tree-iff-no-lexical-error".into(), format!("have_parse={} lexer errors={}", parse.have_parse(), lex_errs.len())));
        }
        if !parse.have_parse() {
            let got: Vec<(usize, usize)> = parse.errors().iter().map(|e| (e.range().start().into(), e.range().end().into())).collect();
            if got != lex_errs {
                fails.push(("C11:gate:errors-without-tree-are-not-the-lexer-errors".into(), format!("{got:?} vs {lex_errs:?}")));
            }
        }
        fails
    });
    match r {
        Ok(f) => {
            for (k, d) in f {
                out.push(Failure::new(k, json!({"input": {"source": text}, "actual": d})));
            }
        }
        Err(p) => {
            // a crash here is C01's subject; not double counted
            let _ = p;
        }
    }
}

pub fn gen_malformed_case(src: &mut Src) -> (Rendered, Vec<&'static str>) {
    let mut seq = gen_sequence(src, 12);
    let n_bad = 1 + src.below(3);
    let mut labels = vec![];
    for k in 0..n_bad {
        let last = k + 1 == n_bad && src.chance(1, 3);
        let m = gen_malformed(src, last);
        labels.push(m.class);
        if m.swallows {
            seq.push(m);
        } else {
            let pos = src.below(seq.len() + 1);
            // never after a swallowing lexeme
            let pos = if seq.last().map(|l| l.swallows).unwrap_or(false) { pos.min(seq.len() - 1) } else { pos };
            seq.insert(pos, m);
        }
    }
    let r = render(src, &seq, false);
    (r, labels)
}
