// lex: ok
// parse: diag
// sema: skip

measure $0, $1;
a[0:1] = measure $0, $1;
a = measure $0 -> b;
creg a[1] = measure $0;
measure $0 -> creg a[1];
measure $0 -> bit[1] a;
// Measure can't be used in sub-expressions.
a = 2 * measure $0;
a = (measure $0) + (measure $1);
