//! C19 — the symbol table behaves as a stack of scopes under every operation history.

use crate::engine::*;
use oq3_semantics::symbols::{ScopeType, SymbolId, SymbolTable, SymbolType};
use oq3_semantics::types::{IsConst, Type};
use serde_json::{json, Value};
use std::collections::HashMap;

#[derive(Clone, Debug, PartialEq)]
pub enum Op {
    EnterLocal,
    EnterSub,
    EnterCal,
    Exit,
    Bind(usize, usize),   // name index, type index
    Lookup(usize),        // name index
    LookupOrNew(usize, usize),
}

pub const NAMES: &[&str] = &["a", "b", "pi", "U", "cx", "τ"];

pub fn types() -> Vec<Type> {
    vec![
        Type::Int(None, IsConst::False),
        Type::Qubit,
        Type::Gate(1, 2),
        Type::Float(Some(32), IsConst::True),
    ]
}

fn op_to_json(op: &Op) -> Value {
    match op {
        Op::EnterLocal => json!("enter_local"),
        Op::EnterSub => json!("enter_subroutine"),
        Op::EnterCal => json!("enter_calibration"),
        Op::Exit => json!("exit"),
        Op::Bind(n, t) => json!(["bind", NAMES[*n], t]),
        Op::Lookup(n) => json!(["lookup", NAMES[*n]]),
        Op::LookupOrNew(n, t) => json!(["lookup_or_new", NAMES[*n], t]),
    }
}

pub fn ops_from_json(v: &Value) -> Option<Vec<Op>> {
    let mut out = vec![];
    for o in v.as_array()? {
        if let Some(s) = o.as_str() {
            out.push(match s {
                "enter_local" => Op::EnterLocal,
                "enter_subroutine" => Op::EnterSub,
                "enter_calibration" => Op::EnterCal,
                "exit" => Op::Exit,
                _ => return None,
            });
        } else {
            let a = o.as_array()?;
            let name = NAMES.iter().position(|n| Some(*n) == a.get(1).and_then(|x| x.as_str()))?;
            match a[0].as_str()? {
                "bind" => out.push(Op::Bind(name, a[2].as_u64()? as usize)),
                "lookup" => out.push(Op::Lookup(name)),
                "lookup_or_new" => out.push(Op::LookupOrNew(name, a[2].as_u64()? as usize)),
                _ => return None,
            }
        }
    }
    Some(out)
}

/// Reference model: a stack of maps + append-only symbol list.
#[derive(Clone)]
pub struct Model {
    scopes: Vec<HashMap<String, usize>>,
    all: Vec<(String, Type)>,
    ids: Vec<SymbolId>, // ids returned by the implementation, by model index
}

#[derive(Clone)]
pub struct State {
    pub table: SymbolTable,
    pub model: Model,
    pub bind_in_open_scope: Vec<bool>, // per open scope: a bind happened in it
    pub exit_after_bind: bool,
    pub lookup_after_that: bool,
}

fn fail(rule: &str, hist: &[Op], what: String) -> Failure {
    let ops: Vec<Value> = hist.iter().map(op_to_json).collect();
    Failure::new(format!("C19:{rule}"), json!({"input": {"ops": ops}, "actual": what}))
}

pub fn initial(out: &mut Vec<Failure>) -> State {
    let table = SymbolTable::new();
    let mut model = Model { scopes: vec![HashMap::new()], all: vec![], ids: vec![] };
    // The built-ins are present from the start.
    for name in ["pi", "π", "euler", "ℇ", "tau", "τ", "U"] {
        let expect_ty = if name == "U" { Type::Gate(3, 1) } else { Type::Float(Some(64), IsConst::True) };
        match table.lookup(name) {
            Ok(rec) => {
                if rec.symbol_type() != &expect_ty {
                    out.push(fail("builtin-type", &[], format!("{name}: {:?}", rec.symbol_type())));
                }
                let id = rec.symbol_id();
                if table[&id].name() != name {
                    out.push(fail("builtin-name", &[], format!("{name}: {}", table[&id].name())));
                }
                let idx = model.all.len();
                model.scopes[0].insert(name.to_string(), idx);
                model.all.push((name.to_string(), expect_ty));
                model.ids.push(id);
            }
            Err(_) => out.push(fail("builtin-missing", &[], name.to_string())),
        }
    }
    if table.gates().count() != 0 {
        out.push(fail("gates-initial", &[], format!("{:?}", table.gates().map(|g| g.0.to_string()).collect::<Vec<_>>())));
    }
    if table.len_current_scope() != model.scopes[0].len() {
        out.push(fail("initial-len", &[], format!("{}", table.len_current_scope())));
    }
    State { table, model, bind_in_open_scope: vec![false], exit_after_bind: false, lookup_after_that: false }
}

impl Model {
    fn lookup(&self, name: &str) -> Option<usize> {
        for s in self.scopes.iter().rev() {
            if let Some(i) = s.get(name) {
                return Some(*i);
            }
        }
        None
    }
}

/// Apply `op` to both the implementation and the model, checking the oracle.
/// `hist` is the history including `op` (for failure reports).
pub fn step(st: &mut State, op: &Op, hist: &[Op], tys: &[Type], out: &mut Vec<Failure>, full_check: bool) {
    match op {
        Op::EnterLocal | Op::EnterSub | Op::EnterCal => {
            let ty = match op {
                Op::EnterLocal => ScopeType::Local,
                Op::EnterSub => ScopeType::Subroutine,
                _ => ScopeType::Calibration,
            };
            st.table.verif_enter_scope(ty);
            st.model.scopes.push(HashMap::new());
            st.bind_in_open_scope.push(false);
        }
        Op::Exit => {
            st.table.exit_scope();
            st.model.scopes.pop();
            if st.bind_in_open_scope.pop() == Some(true) {
                st.exit_after_bind = true;
            }
        }
        Op::Bind(n, t) => {
            let name = NAMES[*n];
            let ty = &tys[*t];
            let absent = !st.model.scopes.last().unwrap().contains_key(name);
            let r = st.table.new_binding(name, ty);
            match (&r, absent) {
                (Ok(id), true) => {
                    if st.model.ids.iter().any(|old| old == id) {
                        out.push(fail("id-reused", hist, format!("{id:?}")));
                    }
                    let idx = st.model.all.len();
                    st.model.scopes.last_mut().unwrap().insert(name.to_string(), idx);
                    st.model.all.push((name.to_string(), ty.clone()));
                    st.model.ids.push(id.clone());
                    *st.bind_in_open_scope.last_mut().unwrap() = true;
                }
                (Err(_), false) => {}
                (Ok(_), false) => out.push(fail("bind-succeeds-on-duplicate", hist, name.to_string())),
                (Err(e), true) => out.push(fail("bind-fails-without-duplicate", hist, format!("{name}: {e:?}"))),
            }
        }
        Op::LookupOrNew(n, t) => {
            let name = NAMES[*n];
            let ty = &tys[*t];
            let expect = st.model.lookup(name);
            let id = st.table.lookup_or_new_binding(name, ty);
            match expect {
                Some(idx) => {
                    if st.model.ids[idx] != id {
                        out.push(fail("lookup-or-new-wrong-symbol", hist, format!("{name}: {id:?}")));
                    }
                }
                None => {
                    if st.model.ids.iter().any(|old| *old == id) {
                        out.push(fail("id-reused", hist, format!("{id:?}")));
                    }
                    let idx = st.model.all.len();
                    st.model.scopes.last_mut().unwrap().insert(name.to_string(), idx);
                    st.model.all.push((name.to_string(), ty.clone()));
                    st.model.ids.push(id);
                    *st.bind_in_open_scope.last_mut().unwrap() = true;
                }
            }
        }
        Op::Lookup(n) => {
            let name = NAMES[*n];
            if st.exit_after_bind {
                st.lookup_after_that = true;
            }
            let expect = st.model.lookup(name);
            let got = st.table.lookup(name);
            match (expect, got) {
                (None, Err(_)) => {}
                (None, Ok(rec)) => out.push(fail("lookup-finds-unbound-or-closed", hist, format!("{name}: {:?}", rec.symbol_id()))),
                (Some(_), Err(e)) => out.push(fail("lookup-misses-visible-binding", hist, format!("{name}: {e:?}"))),
                (Some(idx), Ok(rec)) => {
                    if rec.symbol_id() != st.model.ids[idx] {
                        out.push(fail("lookup-not-innermost", hist, format!("{name}: got {:?} want {:?}", rec.symbol_id(), st.model.ids[idx])));
                    } else if rec.symbol_type() != &st.model.all[idx].1 {
                        out.push(fail("lookup-type", hist, format!("{name}: {:?}", rec.symbol_type())));
                    }
                }
            }
        }
    }
    // invariants after every operation
    if st.table.len_current_scope() != st.model.scopes.last().unwrap().len() {
        out.push(fail(
            "len-current-scope",
            hist,
            format!("{} vs model {}", st.table.len_current_scope(), st.model.scopes.last().unwrap().len()),
        ));
    }
    if st.table.verif_scope_depth() != st.model.scopes.len() {
        out.push(fail("scope-depth", hist, format!("{} vs {}", st.table.verif_scope_depth(), st.model.scopes.len())));
    }
    if st.table.verif_symbols().len() != st.model.all.len() {
        out.push(fail("symbol-store-size", hist, format!("{} vs {}", st.table.verif_symbols().len(), st.model.all.len())));
    }
    if full_check {
        // every id ever returned still denotes the same (name, type)
        for (idx, id) in st.model.ids.iter().enumerate() {
            if SymbolTable::verif_symbol_index(id) >= st.table.verif_symbols().len() {
                out.push(fail("id-dangling", hist, format!("{id:?}")));
                continue;
            }
            let sym = &st.table[id];
            if sym.name() != st.model.all[idx].0 || sym.symbol_type() != &st.model.all[idx].1 {
                out.push(fail("id-denotation-changed", hist, format!("{id:?}: {} {:?}", sym.name(), sym.symbol_type())));
            }
        }
        // every visible name resolves as in the model (exit removes exactly its own bindings)
        for name in NAMES {
            let expect = st.model.lookup(name);
            let got = st.table.lookup(name).ok().map(|r| r.symbol_id());
            match (expect, got) {
                (None, None) => {}
                (Some(i), Some(id)) if st.model.ids[i] == id => {}
                (e, g) => out.push(fail("visibility-after-op", hist, format!("{name}: model {e:?} impl {g:?}"))),
            }
        }
        // gate listing: all bound gates, never U
        let mut expect: Vec<(String, usize, usize)> = st
            .model
            .all
            .iter()
            .filter_map(|(n, t)| match t {
                Type::Gate(a, b) if n != "U" => Some((n.clone(), *a, *b)),
                _ => None,
            })
            .collect();
        let mut got: Vec<(String, usize, usize)> = st.table.gates().map(|(n, _, a, b)| (n.to_string(), a, b)).collect();
        expect.sort();
        got.sort();
        if expect != got {
            out.push(fail("gates-listing", hist, format!("{got:?} vs {expect:?}")));
        }
    }
}

pub fn replay_ops(ops: &[Op]) -> Vec<Failure> {
    let mut out = vec![];
    let tys = types();
    let mut st = initial(&mut out);
    let mut hist = vec![];
    for op in ops {
        hist.push(op.clone());
        if *op == Op::Exit && st.model.scopes.len() <= 1 {
            continue; // precondition: exiting the global scope is a programming error
        }
        step(&mut st, op, &hist, &tys, &mut out, true);
    }
    out
}

const EXH_OPS: &[Op] = &[
    Op::EnterLocal,
    Op::EnterSub,
    Op::Exit,
    Op::Bind(0, 0),
    Op::Bind(0, 1),
    Op::Bind(1, 0),
    Op::Bind(1, 1),
    Op::Lookup(0),
    Op::Lookup(1),
];

fn dfs(ctx: &RunCtx, st: &State, hist: &mut Vec<Op>, depth_left: usize, tys: &[Type], stats: &mut Stats) {
    for op in EXH_OPS {
        if *op == Op::Exit && st.model.scopes.len() <= 1 {
            continue;
        }
        heartbeat_tick();
        let mut next = st.clone();
        hist.push(op.clone());
        let mut fails = vec![];
        step(&mut next, op, hist, tys, &mut fails, true);
        let mut rep = CaseReport::default();
        rep.failures = fails;
        rep.class(format!("exh-len{}", hist.len()));
        if next.lookup_after_that {
            rep.nontrivial = Some(fnv64(format!("{hist:?}").as_bytes()));
        }
        if hist.len() == 5 && stats.evaluations % 20011 == 0 {
            rep.sample = Some(format!("{:?}", hist));
        }
        ctx.eval_local("C19", stats, rep);
        if depth_left > 1 {
            dfs(ctx, &next, hist, depth_left - 1, tys, stats);
        }
        hist.pop();
    }
}

pub fn run(ctx: &RunCtx) {
    ctx.set_rule("histories over {enter local, enter subroutine, exit (only when a non-global scope is open), bind a|b as int|qubit, lookup a|b}: every history up to the stated length, checked against a stack-of-maps reference after every operation; plus proptest-generated random histories up to length 200 over 6 names (incl. pi, U, cx, τ), 4 types, lookup_or_new_binding and calibration scopes. non-trivial = history contains an exit after a bind in that scope, followed by a lookup; distinct by operation list");
    ctx.assume("exit is only generated when a non-global scope is open (documented precondition: exiting the global scope is a programming error)");
    let tys = types();
    // built-ins
    {
        let mut fails = vec![];
        let _ = initial(&mut fails);
        let mut st = Stats::default();
        let mut rep = CaseReport::default();
        rep.failures = fails;
        rep.class("initial-table");
        ctx.eval_local("C19", &mut st, rep);
        ctx.merge_stats(st);
    }
    let max_len = ctx.pick(7usize, 9usize);
    // split on the first two operations
    let firsts: Vec<(usize, usize)> = (0..EXH_OPS.len()).flat_map(|a| (0..EXH_OPS.len()).map(move |b| (a, b))).collect();
    ctx.par_units(firsts.len() + EXH_OPS.len(), |u, stats| {
        let mut fails = vec![];
        let st0 = initial(&mut fails);
        let mut hist: Vec<Op> = vec![];
        let mut st = st0;
        let prefix: Vec<usize> = if u < EXH_OPS.len() { vec![u] } else { vec![firsts[u - EXH_OPS.len()].0, firsts[u - EXH_OPS.len()].1] };
        for (k, oi) in prefix.iter().enumerate() {
            let op = &EXH_OPS[*oi];
            if *op == Op::Exit && st.model.scopes.len() <= 1 {
                return;
            }
            hist.push(op.clone());
            let mut f = vec![];
            step(&mut st, op, &hist, &tys, &mut f, true);
            // count the prefix node itself exactly once: length-1 nodes in the single-op units,
            // length-2 nodes in the pair units
            if k + 1 == prefix.len() {
                let mut rep = CaseReport::default();
                rep.failures = f;
                rep.class(format!("exh-len{}", hist.len()));
                ctx.eval_local("C19", stats, rep);
            }
        }
        if prefix.len() == 2 && max_len > 2 {
            dfs(ctx, &st, &mut hist, max_len - 2, &tys, stats);
        }
    });
    ctx.mark_exhaustive(format!("all histories of length <= {max_len} over 9 operations (exit only with an open non-global scope)"));

    // random long histories
    let n = ctx.pick(200_000u64, 2_000_000u64);
    ctx.random("random-history", n, 420, |src| {
        let mut fails = vec![];
        let mut st = initial(&mut fails);
        let len = src.below(201);
        let mut hist = vec![];
        for _ in 0..len {
            let op = match src.below(10) {
                0 => Op::EnterLocal,
                1 => Op::EnterSub,
                2 => Op::EnterCal,
                3 | 4 => Op::Exit,
                5 | 6 => Op::Bind(src.below(NAMES.len()), src.below(4)),
                7 => Op::LookupOrNew(src.below(NAMES.len()), src.below(4)),
                _ => Op::Lookup(src.below(NAMES.len())),
            };
            if op == Op::Exit && st.model.scopes.len() <= 1 {
                continue;
            }
            hist.push(op.clone());
            step(&mut st, &op, &hist, &tys, &mut fails, hist.len() % 8 == 0);
            if !fails.is_empty() {
                break;
            }
        }
        let mut rep = CaseReport::default();
        rep.failures = fails;
        rep.class("random");
        if st.lookup_after_that {
            rep.nontrivial = Some(fnv64(format!("{hist:?}").as_bytes()));
        }
        rep.sample = Some(format!("{:?}", &hist[..hist.len().min(24)]));
        rep
    });
}
