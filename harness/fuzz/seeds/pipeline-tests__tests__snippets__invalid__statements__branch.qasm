// lex: ok
// parse: diag
// sema: skip

if true x $0;
if false { x $0; }
if (myvar += 1) { x $0; }
if (int[8] myvar = 1) { x $0; }
if (true);
if (true) else x $0;
if (true) else (false) x $0;
if (reset $0) { x $1; }
