//! Text-level oracles shared by C01, C02, C12 (syntax side) and C14, and their runners.

use crate::engine::*;
use crate::textgen::*;
use oq3_parser::{LexedStr, Step, TopEntryPoint};
use oq3_syntax::{NodeOrToken, SourceFile, SyntaxKind, SyntaxNode};
use serde_json::json;

#[derive(Clone, Copy, PartialEq, Eq)]
pub enum P {
    C01,
    C02,
    C12,
    C14,
}

impl P {
    pub fn id(self) -> &'static str {
        match self {
            P::C01 => "C01",
            P::C02 => "C02",
            P::C12 => "C12",
            P::C14 => "C14",
        }
    }
}

/// Work-bound constants (C01): calibrated on the complete length<=3 token enumeration and the
/// repository snippets, times 4, then frozen (see DESIGN.md C01/O).
pub const STEPS_PER_TOKEN: u64 = 48;
pub const EVENTS_PER_TOKEN: u64 = 64;
pub const LOOKS_PER_TOKEN: u64 = 1024;

pub struct TextFacts {
    pub n_tokens: usize,
    pub n_nontrivia: usize,
    pub n_trivia: usize,
    pub n_syntax_errors: usize,
    pub n_nodes: usize,
    pub has_error_node: bool,
    pub has_multibyte: bool,
    pub kind_hash: u64,
    pub has_composite: bool,
    pub steps_ratio_x100: u64,
}

fn detail(text: &str, what: &str) -> serde_json::Value {
    json!({"input": {"source": text}, "actual": what})
}

/// C14 oracle. Returns failures (keys prefixed C14:).
pub fn oracle_c14(text: &str, out: &mut Vec<Failure>) -> usize {
    note_case(1, text);
    let r = guarded(|| {
        let mut fails: Vec<(String, String)> = vec![];
        let mut toks: Vec<(oq3_lexer::TokenKind, u32)> = vec![];
        let mut off = 0usize;
        let mut guard = 0usize;
        for tk in oq3_lexer::tokenize(text) {
            guard += 1;
            if guard > text.len() + 1 {
                fails.push(("C14:lex:more-tokens-than-bytes".into(), format!("{guard} tokens")));
                break;
            }
            if tk.len == 0 {
                fails.push(("C14:lex:zero-length-token".into(), format!("{:?} at {off}", tk.kind)));
                break;
            }
            off += tk.len as usize;
            if off > text.len() || !text.is_char_boundary(off) {
                fails.push(("C14:lex:not-char-boundary".into(), format!("{:?} ends at {off}", tk.kind)));
                break;
            }
            if let oq3_lexer::TokenKind::Literal { suffix_start, .. } = tk.kind {
                if suffix_start > tk.len {
                    fails.push(("C14:lex:suffix-start-exceeds-len".into(), format!("{:?}", tk)));
                }
            }
            toks.push((tk.kind, tk.len));
        }
        if fails.is_empty() && off != text.len() {
            fails.push(("C14:lex:length-sum".into(), format!("sum {off} != len {}", text.len())));
        }
        // determinism
        let again: Vec<(oq3_lexer::TokenKind, u32)> =
            oq3_lexer::tokenize(text).take(text.len() + 2).map(|t| (t.kind, t.len)).collect();
        if fails.is_empty() && again != toks {
            fails.push(("C14:lex:nondeterministic".into(), String::new()));
        }
        // LexedStr table
        let lexed = LexedStr::new(text);
        if fails.is_empty() && lexed.len() != toks.len() {
            fails.push(("C14:table:len".into(), format!("{} vs {}", lexed.len(), toks.len())));
        }
        let n = lexed.len();
        let mut cat = 0usize;
        let mut prev = None;
        for i in 0..n {
            let st = lexed.text_start(i);
            if let Some(p) = prev {
                if st <= p {
                    fails.push(("C14:table:start-not-increasing".into(), format!("token {i}")));
                    break;
                }
            }
            prev = Some(st);
            let tx = lexed.text(i);
            let rg = lexed.text_range(i);
            if rg.start != st || &text[rg.clone()] != tx || st != cat {
                fails.push(("C14:table:text-mismatch".into(), format!("token {i}")));
                break;
            }
            let _ = lexed.kind(i);
            let _ = lexed.text_len(i);
            cat += tx.len();
        }
        if lexed.text_start(n) != text.len() {
            fails.push(("C14:table:end-offset".into(), format!("{} vs {}", lexed.text_start(n), text.len())));
        }
        if n > 0 && lexed.range_text(0..n) != text {
            fails.push(("C14:table:range-text".into(), String::new()));
        }
        for (i, _msg) in lexed.errors() {
            if i >= n {
                fails.push(("C14:table:error-index-out-of-range".into(), format!("{i} >= {n}")));
            }
        }
        (fails, toks.len())
    });
    match r {
        Ok((fails, n)) => {
            for (k, d) in fails {
                out.push(Failure::new(k, detail(text, &d)));
            }
            n
        }
        Err(p) => {
            out.push(Failure::new(format!("C14:{}", panic_key(&p)), detail(text, &format!("{}:{} {}", p.file, p.line, p.msg))));
            0
        }
    }
}

fn check_ranges_c12(text: &str, errors: &[oq3_syntax::SyntaxError], which: &str, out: &mut Vec<Failure>) {
    for e in errors {
        let r = e.range();
        let (s, t): (usize, usize) = (r.start().into(), r.end().into());
        if s > t || t > text.len() {
            out.push(Failure::new(
                format!("C12:{which}:range-out-of-bounds"),
                detail(text, &format!("{s}..{t} len {} msg {}", text.len(), e.message())),
            ));
        } else if !text.is_char_boundary(s) || !text.is_char_boundary(t) {
            out.push(Failure::new(
                format!("C12:{which}:range-not-char-boundary"),
                detail(text, &format!("{s}..{t} msg {}", e.message())),
            ));
        }
    }
}

fn tree_checks(
    text: &str,
    root: &SyntaxNode,
    n_errors: usize,
    which: &str,
    out: &mut Vec<Failure>,
    facts: &mut TextFacts,
) {
    // C02: single SOURCE_FILE root spanning the input, leaves spell the input, children tile.
    if root.kind() != SyntaxKind::SOURCE_FILE {
        out.push(Failure::new(format!("C02:{which}:root-kind"), detail(text, &format!("{:?}", root.kind()))));
    }
    let rr = root.text_range();
    if usize::from(rr.start()) != 0 || usize::from(rr.end()) != text.len() {
        out.push(Failure::new(format!("C02:{which}:root-range"), detail(text, &format!("{rr:?} len {}", text.len()))));
    }
    if root.text().to_string() != text {
        out.push(Failure::new(format!("C02:{which}:text-differs"), detail(text, &root.text().to_string())));
    }
    let mut cat = String::with_capacity(text.len());
    let mut has_error = false;
    let mut n_nodes = 0usize;
    for el in root.descendants_with_tokens() {
        match el {
            NodeOrToken::Token(t) => {
                if t.text().is_empty() {
                    out.push(Failure::new(format!("C02:{which}:empty-token"), detail(text, &format!("{:?}", t.kind()))));
                }
                if usize::from(t.text_range().start()) != cat.len() {
                    out.push(Failure::new(format!("C02:{which}:token-offset"), detail(text, &format!("{:?}", t))));
                }
                cat.push_str(t.text());
                if t.kind() == SyntaxKind::ERROR {
                    has_error = true;
                }
            }
            NodeOrToken::Node(n) => {
                n_nodes += 1;
                if n.kind() == SyntaxKind::ERROR {
                    has_error = true;
                }
                // tiling
                let r = n.text_range();
                let mut pos = r.start();
                let mut any = false;
                for ch in n.children_with_tokens() {
                    any = true;
                    let cr = ch.text_range();
                    if cr.start() != pos {
                        out.push(Failure::new(
                            format!("C02:{which}:children-gap-or-overlap"),
                            detail(text, &format!("{:?} child {:?}", n, ch.kind())),
                        ));
                        break;
                    }
                    pos = cr.end();
                }
                if (any && pos != r.end()) || (!any && !r.is_empty()) {
                    out.push(Failure::new(
                        format!("C02:{which}:node-range-not-span-of-children"),
                        detail(text, &format!("{:?}", n)),
                    ));
                }
            }
        }
    }
    if cat != text {
        out.push(Failure::new(format!("C02:{which}:leaf-concat-differs"), detail(text, &cat)));
    }
    facts.n_nodes = n_nodes;
    facts.has_error_node = has_error;
    // C12: error nodes <-> diagnostics
    if has_error && n_errors == 0 {
        out.push(Failure::new(format!("C12:{which}:error-node-without-diagnostic"), detail(text, "")));
    }
}

/// All text-level oracles. Failures for all four properties are appended to `out`.
pub fn oracle_text(text: &str, out: &mut Vec<Failure>) -> TextFacts {
    note_case(1, text);
    let facts = oracle_text_inner(text, out);
    clear_case();
    facts
}

fn oracle_text_inner(text: &str, out: &mut Vec<Failure>) -> TextFacts {
    let mut facts = TextFacts {
        n_tokens: 0,
        n_nontrivia: 0,
        n_trivia: 0,
        n_syntax_errors: 0,
        n_nodes: 0,
        has_error_node: false,
        has_multibyte: text.len() != text.chars().count(),
        kind_hash: 0,
        has_composite: false,
        steps_ratio_x100: 0,
    };
    facts.n_tokens = oracle_c14(text, out);

    // Stage 1: token table, parser input, raw parser with work accounting.
    let r = guarded(|| {
        let lexed = LexedStr::new(text);
        let mut kh: u64 = 0xcbf29ce484222325;
        let mut nontrivia = 0usize;
        for i in 0..lexed.len() {
            let k = lexed.kind(i);
            if !k.is_trivia() {
                nontrivia += 1;
                kh = mix(kh, k as u16 as u64);
            }
        }
        let input = lexed.to_input();
        let _ = oq3_parser::verif_take_work();
        let _ = oq3_parser::verif_take_process_steps();
        let output = TopEntryPoint::SourceFile.parse(&input);
        let (events, looks) = oq3_parser::verif_take_work();
        let psteps = oq3_parser::verif_take_process_steps();
        let mut steps = 0u64;
        let mut composite = false;
        for s in output.iter() {
            steps += 1;
            if let Step::Token { n_input_tokens, .. } = s {
                if n_input_tokens > 1 {
                    composite = true;
                }
            }
        }
        (lexed.len(), nontrivia, kh, steps, events, looks, composite, psteps)
    });
    match r {
        Ok((n, nontrivia, kh, steps, events, looks, composite, psteps)) => {
            facts.n_nontrivia = nontrivia;
            facts.n_trivia = n - nontrivia;
            facts.kind_hash = kh;
            facts.has_composite = composite;
            let t = nontrivia as u64 + 1;
            facts.steps_ratio_x100 = steps * 100 / t;
            if steps > STEPS_PER_TOKEN * t {
                out.push(Failure::new("C01:work:steps-superlinear", detail(text, &format!("{steps} steps for {nontrivia} tokens"))));
            }
            if events > EVENTS_PER_TOKEN * t {
                out.push(Failure::new("C01:work:events-superlinear", detail(text, &format!("{events} events for {nontrivia} tokens"))));
            }
            // every event is visited once and every forward-parent link followed once when the
            // event list is turned into the output
            if psteps > 2 * events + 8 {
                out.push(Failure::new(
                    "C01:work:tree-building-superlinear",
                    detail(text, &format!("{psteps} event-processing steps for {events} events")),
                ));
            }
            if looks > LOOKS_PER_TOKEN * t {
                out.push(Failure::new("C01:work:lookaheads-superlinear", detail(text, &format!("{looks} look-aheads for {nontrivia} tokens"))));
            }
        }
        Err(p) => {
            out.push(Failure::new(
                format!("C01:{}", panic_key(&p)),
                detail(text, &format!("{}:{} {}", p.file, p.line, p.msg)),
            ));
            // The tree-building entry points would hit the same defect; do not double count.
            return facts;
        }
    }

    // Stage 2: SourceFile::parse (always-parse entry point)
    let r = guarded(|| {
        let parse = SourceFile::parse(text);
        let mut fails = vec![];
        let mut f2 = TextFacts { ..TextFacts::default_like(&facts) };
        check_ranges_c12(text, parse.errors(), "parse", &mut fails);
        tree_checks(text, &parse.syntax_node(), parse.errors().len(), "parse", &mut fails, &mut f2);
        (fails, parse.errors().len(), f2.n_nodes, f2.has_error_node)
    });
    match r {
        Ok((fails, nerr, nodes, has_err)) => {
            out.extend(fails);
            facts.n_syntax_errors = nerr;
            facts.n_nodes = nodes;
            facts.has_error_node = has_err;
        }
        Err(p) => {
            out.push(Failure::new(
                format!("C01:{}", panic_key(&p)),
                detail(text, &format!("{}:{} {}", p.file, p.line, p.msg)),
            ));
        }
    }

    // Stage 3: SourceFile::parse_check_lex
    let r = guarded(|| {
        let parse = SourceFile::parse_check_lex(text);
        let mut fails = vec![];
        let lex_errs = LexedStr::new(text).errors().count();
        check_ranges_c12(text, parse.errors(), "check_lex", &mut fails);
        if parse.have_parse() {
            let mut f2 = TextFacts { ..TextFacts::default_like(&facts) };
            tree_checks(text, &parse.syntax_node(), parse.errors().len(), "check_lex", &mut fails, &mut f2);
            if lex_errs != 0 {
                fails.push(Failure::new("C11:gate:tree-despite-lexer-errors", detail(text, "")));
            }
        } else {
            if parse.errors().is_empty() {
                fails.push(Failure::new("C12:check_lex:no-tree-and-no-diagnostic", detail(text, "")));
            }
            if lex_errs == 0 {
                fails.push(Failure::new("C11:gate:no-tree-without-lexer-errors", detail(text, "")));
            }
        }
        fails
    });
    match r {
        Ok(fails) => out.extend(fails),
        Err(p) => {
            out.push(Failure::new(
                format!("C01:{}", panic_key(&p)),
                detail(text, &format!("{}:{} {}", p.file, p.line, p.msg)),
            ));
        }
    }

    // Stage 4: the same text through the source-file layer (the entry point of the analyser):
    // its diagnostics and its tree refer to the text that was passed in
    let r = guarded(|| {
        use oq3_source_file::SourceTrait;
        let ss = oq3_source_file::parse_source_string(text, None, None::<&[std::path::PathBuf]>);
        let mut fails = vec![];
        if ss.source() != text {
            fails.push(Failure::new("C02:source-string:stored-source-differs", detail(text, "")));
        }
        if let Some(ast) = ss.syntax_ast() {
            check_ranges_c12(text, ast.errors(), "source-string", &mut fails);
            if ast.have_parse() && ast.syntax_node().text().to_string() != text {
                fails.push(Failure::new("C02:source-string:tree-text-differs", detail(text, &ast.syntax_node().text().to_string())));
            }
        }
        fails
    });
    match r {
        Ok(fails) => out.extend(fails),
        Err(p) => {
            out.push(Failure::new(
                format!("C01:source-string:{}", panic_key(&p)),
                detail(text, &format!("{}:{} {}", p.file, p.line, p.msg)),
            ));
        }
    }
    facts
}

impl TextFacts {
    fn default_like(o: &TextFacts) -> TextFacts {
        TextFacts {
            n_tokens: o.n_tokens,
            n_nontrivia: o.n_nontrivia,
            n_trivia: o.n_trivia,
            n_syntax_errors: 0,
            n_nodes: 0,
            has_error_node: false,
            has_multibyte: o.has_multibyte,
            kind_hash: o.kind_hash,
            has_composite: o.has_composite,
            steps_ratio_x100: o.steps_ratio_x100,
        }
    }
}

/// Build the CaseReport of `prop` for one text.
pub fn text_case(prop: P, text: &str, class: &str, want_sample: bool) -> CaseReport {
    let mut rep = CaseReport::default();
    let mut fails = vec![];
    let facts = if prop == P::C14 {
        let n = oracle_c14(text, &mut fails);
        TextFacts {
            n_tokens: n,
            n_nontrivia: 0,
            n_trivia: 0,
            n_syntax_errors: 0,
            n_nodes: 0,
            has_error_node: false,
            has_multibyte: text.len() != text.chars().count(),
            kind_hash: 0,
            has_composite: false,
            steps_ratio_x100: 0,
        }
    } else {
        oracle_text(text, &mut fails)
    };
    let prefix = format!("{}:", prop.id());
    rep.failures = fails.into_iter().filter(|f| f.key.starts_with(&prefix)).collect();
    rep.class(class);
    let th = fnv64(text.as_bytes());
    let nontrivial = match prop {
        P::C01 => facts.n_nontrivia >= 1 && (facts.n_syntax_errors >= 1 || facts.n_nodes >= 3),
        P::C02 => {
            (facts.n_trivia >= 1 && facts.n_nontrivia >= 2) || facts.n_syntax_errors >= 1 || facts.has_composite
        }
        P::C12 => {
            facts.n_syntax_errors >= 1 && (facts.has_multibyte || facts.has_error_node || text.len() < 4096)
        }
        P::C14 => {
            facts.has_multibyte
                || text.bytes().any(|b| matches!(b, 0 | b'"' | b'\'' | b'#' | b'$' | b'@' | b'/'))
                || text.as_bytes().windows(2).any(|w| w[0].is_ascii_digit() && w[1].is_ascii_alphabetic())
        }
    };
    if nontrivial {
        rep.nontrivial = Some(if prop == P::C01 { facts.kind_hash } else { th });
    }
    if want_sample {
        rep.sample = Some(text.to_string());
    }
    rep
}

pub fn replay_text(prop: P, text: &str) -> Vec<Failure> {
    text_case(prop, text, "replay", false).failures
}

fn pow(b: u64, e: usize) -> u64 {
    b.pow(e as u32)
}

/// The shared search plan of the four text-level properties.
pub fn run(prop: P, ctx: &RunCtx) {
    let name = prop.id();
    match prop {
        P::C01 => ctx.set_rule("inputs: exhaustive token sequences over alphabet A (121 spellings: every non-trivia token kind + 26 joint composite operators) up to the stated length, exhaustive short strings over four 14-character alphabets, random token soup (<=64 tokens), random G-chars text, quoted literals built from valid/malformed/truncated escape sequences and multi-byte characters, mutated repository snippets and their single-token corruption sweep (every token replaced by an error character / stray closer / keyword / …, deleted, duplicated), long repetitions (linear-work bound), deep-nesting probes. non-trivial = >=1 non-trivia token and (>=1 syntax diagnostic or >=2 nodes below the root); distinct by non-trivia token-kind sequence"),
        P::C02 => ctx.set_rule("same inputs as C01; non-trivial = (>=1 trivia token and >=2 non-trivia tokens) or >=1 syntax error or >=1 glued composite operator; distinct by input hash"),
        P::C12 => ctx.set_rule("syntax side: same inputs as C01; semantic side: generated programs with injected semantic faults and non-ASCII identifiers; non-trivial = >=1 diagnostic; distinct by input hash"),
        P::C14 => ctx.set_rule("inputs: all strings of length <= L over four 14-character alphabets of lexically critical characters (exhaustive), random G-chars text, token soup, mutated snippets; non-trivial = contains a multi-byte char, NUL, quote, #, $, @, / or digit followed by a letter; distinct by input"),
    }
    ctx.assume("std::str and rowan are trusted; the hook event/look-ahead budget separates 'stuck' from 'slow'; a watchdog timeout is inconclusive, never a violation");

    // (1) exhaustive token sequences over A
    if prop != P::C14 {
        let a = ALPHABET.len() as u64;
        let max_len = ctx.pick(3usize, 4usize);
        for len in 0..=max_len {
            let total = pow(a, len);
            let units = if len >= 2 { (a * a) as usize } else { 1 };
            let per_unit = total / units as u64;
            ctx.par_units(units, |u, st| {
                let mut idx = vec![0usize; len];
                let mut text = String::new();
                for k in 0..per_unit {
                    heartbeat_tick();
                    let mut x = k;
                    let mut uu = u as u64;
                    for (pos, slot) in idx.iter_mut().enumerate() {
                        if units > 1 && pos < 2 {
                            *slot = (uu % a) as usize;
                            uu /= a;
                        } else {
                            *slot = (x % a) as usize;
                            x /= a;
                        }
                    }
                    join_tokens(&idx, &mut text);
                    let want = k == 0 && u % 997 == 0;
                    let rep = text_case(prop, &text, &format!("tok-exh-len{len}"), want);
                    ctx.eval_local(name, st, rep);
                }
            });
        }
        ctx.mark_exhaustive(format!("all token sequences of length <= {max_len} over alphabet A ({} spellings)", a));
    }

    // (2) exhaustive short strings over the four 14-character alphabets
    {
        let max_len = match prop {
            P::C14 => ctx.pick(6usize, 7usize),
            _ => ctx.pick(5usize, 6usize),
        };
        for (aname, alpha) in EXH_ALPHABETS.iter() {
            for len in 0..=max_len {
                let total = pow(14, len);
                let units = if len >= 3 { 14 * 14 * 14 } else { 1 };
                let per_unit = total / units as u64;
                ctx.par_units(units, |u, st| {
                    let mut text = String::new();
                    for k in 0..per_unit {
                        heartbeat_tick();
                        let idx = if units > 1 { k * units as u64 + u as u64 } else { k };
                        exh_string(alpha, len, idx, &mut text);
                        let want = k == per_unit / 2 && u % 911 == 0;
                        let rep = text_case(prop, &text, &format!("str-exh-{aname}-len{len}"), want);
                        ctx.eval_local(name, st, rep);
                    }
                });
            }
        }
        ctx.mark_exhaustive(format!("all strings of length <= {max_len} over each of the 4 fourteen-character alphabets"));
    }

    // (3) random token soup
    let n_soup = ctx.pick(200_000u64, 20_000_000u64);
    ctx.random("soup", n_soup, 80, |src| {
        let n = src.below(65);
        let mut idx = Vec::with_capacity(n);
        for _ in 0..n {
            idx.push(soup_token(src));
        }
        let mut text = String::new();
        join_tokens(&idx, &mut text);
        let text = decorate(src, text);
        text_case(prop, &text, "soup", true)
    });

    // (4) random G-chars text
    let n_chars = ctx.pick(200_000u64, 20_000_000u64);
    ctx.random("chars", n_chars, 200, |src| {
        let text = gen_chars(src, 96);
        let text = decorate(src, text);
        text_case(prop, &text, "chars", true)
    });

    // (4b) quoted literals full of escape sequences and multi-byte characters
    let n_esc = ctx.pick(200_000u64, 10_000_000u64);
    ctx.random("escape-strings", n_esc, 60, |src| {
        let text = gen_escape_text(src);
        let text = decorate(src, text);
        text_case(prop, &text, "escape-strings", true)
    });

    // (5) mutated snippets
    let snippets = load_snippets();
    if snippets.is_empty() {
        ctx.infra_errors.lock().unwrap().push("snippet corpus missing".into());
    } else {
        let n_mut = ctx.pick(100_000u64, 5_000_000u64);
        ctx.random("mutants", n_mut, 24, |src| {
            let s = &snippets[src.below(snippets.len())];
            let text = mutate(src, s);
            let text = decorate(src, text);
            text_case(prop, &text, "snippet-mutant", true)
        });
        // every prefix of every snippet (truncation at every char boundary)
        ctx.par_units(snippets.len(), |u, st| {
            let s = &snippets[u];
            let step = ctx.pick(3usize, 1usize);
            for (n, (i, _)) in s.char_indices().enumerate() {
                if n % step != 0 {
                    continue;
                }
                heartbeat_tick();
                let rep = text_case(prop, &s[..i], "snippet-prefix", false);
                ctx.eval_local(name, st, rep);
            }
            let rep = text_case(prop, s, "snippet-whole", u < 2);
            ctx.eval_local(name, st, rep);
        });
        // single-token corruption sweep: every (coarse) token of every snippet is replaced by an
        // error character, a stray closer, a keyword, a number, or deleted / duplicated
        // (deterministic; the quick tier takes every third token)
        ctx.par_units(snippets.len(), |u, st| {
            let s = &snippets[u];
            let toks = coarse_tokens(s);
            let step = ctx.pick(3usize, 1usize);
            const JUNK: &[&str] = &["№", "}", ")", "mutable", "0x", "\"", "@", "$", "/*", "else", "->"];
            for i in 0..toks.len() {
                // blanks are always visited, the other tokens every `step`-th
                if !toks[i].trim().is_empty() && i % step != 0 {
                    continue;
                }
                if toks[i].trim().is_empty() {
                    // a blank between two tokens replaced by an error character glues it to both
                    // neighbours (`OPENQASM№3.0;`)
                    for j in ["№", "§", "\\"] {
                        let mut v: Vec<&str> = toks.clone();
                        v[i] = j;
                        let rep = text_case(prop, &v.concat(), "blank-corruption", false);
                        ctx.eval_local(name, st, rep);
                        // ... and the blank together with the token after it (`OPENQASM№;`)
                        // (coarse tokens split `3.0` in three, hence up to three following tokens)
                        for extra in 1..=3usize {
                            if i + extra < toks.len() {
                                let mut v: Vec<&str> = toks.clone();
                                v[i] = j;
                                v.drain(i + 1..=i + extra);
                                let rep = text_case(prop, &v.concat(), "blank-and-token-corruption", false);
                                ctx.eval_local(name, st, rep);
                            }
                        }
                    }
                    continue;
                }
                heartbeat_tick();
                for (k, j) in JUNK.iter().enumerate() {
                    // the quick tier rotates through the junk list instead of trying all of it
                    if step > 1 && (i / step + k) % 4 != 0 && k != 0 {
                        continue;
                    }
                    let mut v: Vec<&str> = toks.clone();
                    v[i] = j;
                    let rep = text_case(prop, &v.concat(), "token-corruption", false);
                    ctx.eval_local(name, st, rep);
                }
                let mut v: Vec<&str> = toks.clone();
                v.remove(i);
                let rep = text_case(prop, &v.concat(), "token-deletion", false);
                ctx.eval_local(name, st, rep);
                let mut v: Vec<&str> = toks.clone();
                v.insert(i, toks[i]);
                v.insert(i + 1, " ");
                let rep = text_case(prop, &v.concat(), "token-duplication", false);
                ctx.eval_local(name, st, rep);
            }
        });
    }

    // (6) long repetitions: the linear work bound on 10^3..10^5 tokens
    if prop == P::C01 || prop == P::C02 {
        let units: Vec<&str> = vec![
            "int[32] x = 1 + 2 * 3;\n",
            "x = (a + b) * c;\n",
            "cx q[0], q[1];\n",
            "if (a == b) { x = 1; } else { y = 2; }\n",
            "gate g(a, b) q, r { U(a, b, 0) q; }\n",
            "def f(int[8] a, qubit q) -> bit { return measure q; }\n",
            "for int i in [0:10] { h q; }\n",
            "/* c */ // d\n",
            "1 + ",
            "( ",
            ") ",
            "a[0][1] ",
            "ctrl @ ",
            "; ",
            "switch (x) { case 1, 2 { y; } default { z; } }\n",
            "\"0101\" ",
            "3ns ",
            "@ann x\n",
            "pragma p\n",
        ];
        let reps = ctx.pick(vec![1000usize, 10_000], vec![1000usize, 10_000, 100_000]);
        let jobs: Vec<(usize, usize)> = (0..units.len()).flat_map(|i| reps.iter().map(move |r| (i, *r))).collect();
        ctx.par_units(jobs.len(), |j, st| {
            let (i, r) = jobs[j];
            let text = units[i].repeat(r);
            let rep = text_case(prop, &text, "long-repetition", false);
            ctx.eval_local(name, st, rep);
        });
    }

    // (6b) many erroneous lexemes in one text (counts around powers of two and well beyond):
    // nothing may depend on how many lexical errors came before
    {
        let bad: Vec<&str> = vec!["0x ", "0b ", "0o ", "1e ", "1.5E+ ", "# ", "a😀 ", "\"0__1\" ", "'1__0' ", "§ ", "№№ ", "\\\\ "];
        let counts = ctx.pick(vec![10usize, 63, 64, 65, 66, 129, 300], vec![10usize, 31, 32, 33, 63, 64, 65, 66, 127, 128, 129, 255, 256, 257, 300, 1000, 5000]);
        let mut jobs: Vec<(usize, usize, bool)> = vec![];
        for i in 0..=bad.len() {
            for c in &counts {
                jobs.push((i, *c, false));
                jobs.push((i, *c, true));
            }
        }
        ctx.par_units(jobs.len(), |j, st| {
            let (i, n, spaced_out) = jobs[j];
            let mut text = String::new();
            for k in 0..n {
                // one lexeme repeated, or (last job row) all of them in rotation
                text.push_str(if i < bad.len() { bad[i] } else { bad[k % bad.len()] });
                if spaced_out {
                    text.push_str("x = 1;\n");
                }
            }
            text.push_str("qubit é; /* end */ h é;\n");
            let rep = text_case(prop, &text, "many-lexical-errors", false);
            ctx.eval_local(name, st, rep);
        });
    }

    // (7) deep nesting probes (run on threads with large stacks; see main.rs)
    if prop == P::C01 || prop == P::C02 || prop == P::C12 {
        let depths = ctx.pick(vec![64usize, 256, 1024], vec![64usize, 256, 1024, 4096]);
        let probes: Vec<(String, String)> = depths
            .iter()
            .flat_map(|d| nesting_probes(*d).into_iter().map(move |(n, t)| (format!("{n}-{d}"), t)))
            .collect();
        ctx.par_units(probes.len(), |j, st| {
            let (_n, text) = &probes[j];
            // nesting probes are quadratic-free but deep; the work bound still applies
            let rep = text_case(prop, text, "deep-nesting", false);
            ctx.eval_local(name, st, rep);
        });
    }
}
