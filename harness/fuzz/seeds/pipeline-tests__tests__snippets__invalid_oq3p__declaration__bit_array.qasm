// lex: ok
// parse: diag
// sema: skip

array[bit[8], 2] x;
