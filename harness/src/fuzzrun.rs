//! Coverage-guided campaigns (libFuzzer via cargo-fuzz) for the thorough tiers of C01, C02, C03,
//! C11, C12, C14. The fuzz targets in harness/fuzz call `oracle` below, so a campaign checks the
//! same oracles as the generated checks; an artifact is re-classified here, in-process, through
//! the same function, and enters the run like any other failing case (known-finding matching,
//! replay file, VIOLATION line). Timeouts and out-of-memory artifacts are reported as
//! inconclusive (exit 2), never as violations.

use crate::engine::*;
use crate::layout::Style;
use crate::pipeline::{check_c03, check_gating_source};
use crate::semgen::{gen_program, Profile};
use crate::semprops::check_c12_semantic;
use crate::synprops::print_program;
use crate::textgen::ALPHABET;
use crate::textprops::oracle_text;
use serde_json::json;
use std::path::{Path, PathBuf};
use std::process::{Command, Stdio};

pub const TARGETS: &[&str] = &["fz_text", "fz_tokens", "fz_sema", "fz_model"];

/// Bytes -> the program text the target checks.
pub fn decode(target: &str, data: &[u8]) -> String {
    match target {
        "fz_tokens" => {
            let mut text = String::new();
            for pair in data.chunks(2) {
                let tok = &ALPHABET[pair[0] as usize % ALPHABET.len()];
                text.push_str(tok.text);
                if tok.line {
                    text.push('\n');
                } else {
                    match pair.get(1).copied().unwrap_or(0) % 8 {
                        0 => {}
                        1 | 2 | 3 | 4 => text.push(' '),
                        5 => text.push('\n'),
                        6 => text.push_str("/*c*/"),
                        _ => text.push('\t'),
                    }
                }
            }
            text
        }
        "fz_model" => {
            // two bytes per choice, spread over the 32 bits so that `below(n)` sees them
            let choices: Vec<u32> = data
                .chunks(2)
                .map(|c| {
                    let a = c[0] as u32;
                    let b = c.get(1).copied().unwrap_or(0) as u32;
                    (a << 24) | (b << 16) | (b << 8) | a
                })
                .collect();
            let mut src = Src::new(&choices);
            let style = [Style::Minimal, Style::Spaced, Style::Wild][src.below(3)];
            let mut p = Profile::faulty();
            p.avoid_known = false;
            let prog = gen_program(&mut src, &p);
            print_program(&mut src, &prog, style).text
        }
        _ => String::from_utf8_lossy(data).into_owned(),
    }
}

/// The oracles a target applies (all failures, all properties).
pub fn oracle(target: &str, data: &[u8]) -> (String, Vec<Failure>) {
    let text = decode(target, data);
    let mut fails = vec![];
    match target {
        "fz_text" | "fz_tokens" => {
            oracle_text(&text, &mut fails);
        }
        _ => {
            if check_c03(&text, &mut fails) {
                check_c12_semantic(&text, &mut fails);
            }
            check_gating_source(&text, &mut fails);
        }
    }
    (text, fails)
}

fn fuzz_dir() -> PathBuf {
    verif_root().join("harness").join("fuzz")
}

fn target_bin(target: &str) -> PathBuf {
    fuzz_dir().join("target").join("x86_64-unknown-linux-gnu").join("release").join(target)
}

fn build(ctx: &RunCtx) -> bool {
    let out = Command::new("cargo")
        .args(["+nightly", "fuzz", "build", "-s", "none"])
        .current_dir(verif_root().join("harness"))
        .env("CARGO_NET_OFFLINE", "true")
        .stdout(Stdio::null())
        .stderr(Stdio::piped())
        .spawn();
    let child = match out {
        Ok(c) => c,
        Err(e) => {
            ctx.infra_errors.lock().unwrap().push(format!("cannot start cargo fuzz build: {e}"));
            return false;
        }
    };
    let r = wait_ticking(child);
    match r {
        Ok((st, err)) if st.success() => {
            let _ = err;
            true
        }
        Ok((_, err)) => {
            let tail: String = err.lines().rev().take(12).collect::<Vec<_>>().into_iter().rev().collect::<Vec<_>>().join(" | ");
            ctx.infra_errors.lock().unwrap().push(format!("cargo +nightly fuzz build failed: {tail}"));
            false
        }
        Err(e) => {
            ctx.infra_errors.lock().unwrap().push(format!("cargo fuzz build: {e}"));
            false
        }
    }
}

/// Wait for a child while feeding the watchdog; returns status and captured stderr.
fn wait_ticking(mut child: std::process::Child) -> std::io::Result<(std::process::ExitStatus, String)> {
    use std::io::Read;
    let mut stderr = child.stderr.take();
    let reader = std::thread::spawn(move || {
        let mut s = String::new();
        if let Some(e) = stderr.as_mut() {
            let mut buf = vec![];
            let _ = e.read_to_end(&mut buf);
            s = String::from_utf8_lossy(&buf).into_owned();
        }
        s
    });
    loop {
        heartbeat_tick();
        if let Some(st) = child.try_wait()? {
            let s = reader.join().unwrap_or_default();
            return Ok((st, s));
        }
        std::thread::sleep(std::time::Duration::from_millis(200));
    }
}

fn stat(err: &str, name: &str) -> u64 {
    err.lines().rev().find_map(|l| l.strip_prefix(name).and_then(|r| r.trim().parse::<u64>().ok())).unwrap_or(0)
}

/// Run `procs` independent libFuzzer processes of `target` (`runs` executions each, fresh corpus
/// seeded from harness/fuzz/seeds), then classify artifacts for the property with key prefix
/// `prefix`.
pub fn campaign(ctx: &RunCtx, targets: &[&str], runs: u64) {
    let prefix = format!("{}:", ctx.property);
    if std::env::var("VERIF_NO_FUZZ").is_ok() {
        ctx.note("libFuzzer campaigns skipped (VERIF_NO_FUZZ set)");
        return;
    }
    if !build(ctx) {
        return;
    }
    let procs: usize = std::env::var("VERIF_FUZZ_PROCS").ok().and_then(|s| s.parse().ok()).unwrap_or(16);
    let runs: u64 = std::env::var("VERIF_FUZZ_RUNS").ok().and_then(|s| s.parse().ok()).unwrap_or(runs);
    let work = verif_root().join("harness").join("target").join("work").join(format!("{}", std::process::id())).join("fuzz");
    for target in targets {
        let bin = target_bin(target);
        if !bin.is_file() {
            ctx.infra_errors.lock().unwrap().push(format!("fuzz target binary missing: {}", bin.display()));
            continue;
        }
        let mut children = vec![];
        for k in 0..procs {
            let dir = work.join(target).join(format!("p{k}"));
            let corpus = dir.join("corpus");
            let arts = dir.join("artifacts");
            let _ = std::fs::create_dir_all(&corpus);
            let _ = std::fs::create_dir_all(&arts);
            let mut cmd = Command::new(&bin);
            cmd.arg(&corpus);
            // text targets start from the repository snippets; half of the processes start empty
            if (*target == "fz_text" || *target == "fz_sema") && k % 2 == 0 {
                cmd.arg(fuzz_dir().join("seeds"));
            }
            cmd.arg(format!("-runs={runs}"))
                .arg("-max_len=4096")
                .arg("-len_control=0")
                .arg(format!("-seed={}", 1 + ctx.seed.wrapping_mul(64).wrapping_add(k as u64) % 0x7fff_ffff))
                .arg("-timeout=60")
                // no RSS limit: a spawned child's peak-RSS counter starts at the parent's RSS
                // (kernel accounting across exec), which is several GB after the generated part
                // of a thorough run; single allocations are capped instead, and the address
                // space limit below bounds the total
                .arg("-rss_limit_mb=0")
                .arg("-malloc_limit_mb=4096")
                .arg("-print_final_stats=1")
                .arg("-verbosity=0")
                .arg(format!("-artifact_prefix={}/", arts.display()));
            if *target == "fz_text" || *target == "fz_sema" {
                cmd.arg(format!("-dict={}", fuzz_dir().join("oq3.dict").display()));
            }
            cmd.env("VERIF_ROOT", verif_root()).current_dir(&dir).stdout(Stdio::null()).stderr(Stdio::piped());
            {
                use std::os::unix::process::CommandExt;
                unsafe {
                    cmd.pre_exec(|| {
                        let lim = libc::rlimit { rlim_cur: 12 << 30, rlim_max: 12 << 30 };
                        libc::setrlimit(libc::RLIMIT_AS, &lim);
                        Ok(())
                    });
                }
            }
            match cmd.spawn() {
                Ok(c) => children.push((k, dir, c)),
                Err(e) => ctx.infra_errors.lock().unwrap().push(format!("cannot start {target}: {e}")),
            }
        }
        let mut execs = 0u64;
        let mut retained = 0u64;
        let mut st = Stats::default();
        let mut sample_done = false;
        for (k, dir, child) in children {
            let (status, err) = match wait_ticking(child) {
                Ok(x) => x,
                Err(e) => {
                    ctx.infra_errors.lock().unwrap().push(format!("{target} p{k}: {e}"));
                    continue;
                }
            };
            let n = stat(&err, "stat::number_of_executed_units:");
            execs += n;
            // retained inputs = the ones libFuzzer kept as coverage-increasing
            let mut kept: Vec<PathBuf> = std::fs::read_dir(dir.join("corpus")).map(|rd| rd.flatten().map(|e| e.path()).collect()).unwrap_or_default();
            kept.sort();
            retained += kept.len() as u64;
            let mut rep = CaseReport::default();
            rep.class(format!("libfuzzer:{target}:process"));
            for p in kept.iter() {
                if let Ok(d) = std::fs::read(p) {
                    st.nontrivial.insert(fnv64(&d) ^ fnv64(target.as_bytes()));
                    if !sample_done && d.len() > 8 {
                        rep.sample = Some(format!("[{target}] {}", decode(target, &d).chars().take(300).collect::<String>()));
                        sample_done = true;
                    }
                }
            }
            ctx.eval_local(&ctx.property, &mut st, rep);
            let arts: Vec<PathBuf> = std::fs::read_dir(dir.join("artifacts")).map(|rd| rd.flatten().map(|e| e.path()).collect()).unwrap_or_default();
            let mut explained = false;
            for a in &arts {
                let name = a.file_name().and_then(|n| n.to_str()).unwrap_or("").to_string();
                let Ok(data) = std::fs::read(a) else { continue };
                if name.starts_with("timeout-") || name.starts_with("oom-") {
                    let keep = save_artifact(ctx, target, &name, &data);
                    if std::env::var("VERIF_FUZZ_DEBUG").is_ok() {
                        eprintln!("---- stderr of {target} p{k}:\n{}", err.lines().rev().take(40).collect::<Vec<_>>().into_iter().rev().collect::<Vec<_>>().join("\n"));
                    }
                    ctx.infra_errors.lock().unwrap().push(format!("{target}: {} on an input of {} bytes (saved as {})", if name.starts_with("oom-") { "memory limit" } else { "60 s timeout" }, data.len(), keep.display()));
                    explained = true;
                    continue;
                }
                let (text, fails) = match guarded(|| oracle(target, &data)) {
                    Ok(x) => x,
                    Err(p) => (decode(target, &data), vec![Failure::new(format!("{prefix}{}", panic_key(&p)), json!({"input": {"source": decode(target, &data)}}))]),
                };
                let mine: Vec<Failure> = fails
                    .into_iter()
                    .filter(|f| f.key.starts_with(&prefix))
                    .map(|mut f| {
                        // unlisted failures are minimised at text level (the replay takes text)
                        let small = if ctx.is_known(&f.key) { text.clone() } else { minimise(target, &text, &f.key, 1500) };
                        f.detail = json!({"input": {"source": small, "found_by": format!("libFuzzer {target}"), "original_length": text.len()}, "detail": f.detail});
                        f
                    })
                    .collect();
                explained = true; // the artifact reproduces through the oracle or concerns another property
                let mut rep = CaseReport::default();
                rep.class(format!("libfuzzer:{target}:artifact"));
                rep.failures = mine;
                ctx.eval_local(&ctx.property, &mut st, rep);
            }
            if !status.success() && !explained {
                let tail: String = err.lines().rev().take(6).collect::<Vec<_>>().into_iter().rev().collect::<Vec<_>>().join(" | ");
                ctx.infra_errors.lock().unwrap().push(format!("{target} p{k} exited with {status} without an artifact: {tail}"));
            }
            let _ = std::fs::remove_dir_all(&dir);
        }
        st.evaluations += execs;
        *st.classes.entry(format!("libfuzzer:{target}:executions")).or_default() += execs;
        ctx.merge_stats(st);
        ctx.note(format!("libFuzzer {target}: {procs} processes x {runs} runs, {execs} executions, {retained} inputs retained as coverage-increasing"));
    }
    let _ = std::fs::remove_dir_all(&work);
}

/// Shrink a failing text while the same key keeps failing: remove statement-sized chunks (split
/// after `;`, `}` and line breaks), then single characters; at most `budget` oracle calls.
fn minimise(target: &str, text: &str, key: &str, budget: usize) -> String {
    let still_fails = |t: &str| -> bool {
        let data_target = if target == "fz_tokens" || target == "fz_text" { "fz_text" } else { "fz_sema" };
        matches!(guarded(|| oracle(data_target, t.as_bytes())), Ok((_, fs)) if fs.iter().any(|f| f.key == key))
    };
    let mut calls = 0usize;
    let mut cur = text.to_string();
    if !still_fails(&cur) {
        return cur;
    }
    let split = |t: &str| -> Vec<String> {
        let mut v = vec![];
        let mut c = String::new();
        for ch in t.chars() {
            c.push(ch);
            if ch == ';' || ch == '\n' || ch == '}' {
                v.push(std::mem::take(&mut c));
            }
        }
        if !c.is_empty() {
            v.push(c);
        }
        v
    };
    loop {
        let chunks = split(&cur);
        let mut progressed = false;
        let mut i = 0;
        let mut kept: Vec<String> = chunks.clone();
        while i < kept.len() && calls < budget {
            let mut trial = kept.clone();
            trial.remove(i);
            let t = trial.concat();
            calls += 1;
            heartbeat_tick();
            if still_fails(&t) {
                kept = trial;
                progressed = true;
            } else {
                i += 1;
            }
        }
        cur = kept.concat();
        if !progressed || calls >= budget {
            break;
        }
    }
    // character level (only worthwhile on what is left)
    let mut chars: Vec<char> = cur.chars().collect();
    let mut i = 0;
    while i < chars.len() && calls < budget && chars.len() <= 400 {
        let mut trial = chars.clone();
        trial.remove(i);
        let t: String = trial.iter().collect();
        calls += 1;
        heartbeat_tick();
        if still_fails(&t) {
            chars = trial;
        } else {
            i += 1;
        }
    }
    chars.into_iter().collect()
}

fn save_artifact(ctx: &RunCtx, target: &str, name: &str, data: &[u8]) -> PathBuf {
    let d = verif_root().join("replays").join(format!("{}-fuzz", ctx.property));
    let _ = std::fs::create_dir_all(&d);
    let p = d.join(format!("{target}-{name}"));
    let _ = std::fs::write(&p, data);
    p
}

pub fn is_fuzz_path(p: &Path) -> bool {
    p.components().any(|c| c.as_os_str() == "fuzz")
}
