// lex: ok
// parse: ok
// sema: todo

OPENQASM 3.0;
include "stdgates.inc";
input angle[32] param1;
input angle[32] param2;
output bit result;
