// lex: ok
// parse: ok
// sema: panic

int[32](10);
sin(π);
arcsin(π);
cos(π);
arccos(π);
tan(π);
arctan(π);
exp(π);
ln(π);
sqrt(π);
rotl(π);
rotr(π);
popcount(π);
sizeof(x);
sizeof(x, 0);
sizeof(x, 1);
